"""C10 — defaults and triggered calculations are applied exactly once."""

from __future__ import annotations

import ast
import itertools

from ..astutil import call_name, const_str, guard_texts, kw
from ..interp import GenList, NodeVal, Obj, Raised, Sym, SymStr, explore
from ..loader import AnalysisError, norm, walk_own
from ..report import Rule
from ..xmlmodel import node_hook
from .c07 import _mk

EXPLANATION = (
    "Abstract evaluation (analyser's own evaluator) of Question.xml_instance and "
    "get_setvalue_node_for_dynamic_default over default in {absent, empty, static, dynamic} with the classifier as an "
    "oracle: exactly one of {literal in the instance node, setvalue action} for a non-empty default, neither for an "
    "empty one, both consult the classifier with (default, type); evaluation of the model-level placement and of the "
    "repeat-body helper on small concrete trees (nested groups and repeats): one setvalue per dynamic default, in the "
    "model when no repeat ancestor exists, otherwise in the innermost repeat's body with the odk-new-repeat event; "
    "evaluation of the trigger bookkeeping (builder._save_trigger -> Question.xml_control/nest_set_nodes): tuple "
    "agreement, setvalue vs setgeopoint, value-changed event, target ref; call-site census of the setvalue builder."
)
NOT_DECIDED = ("the lexer's classification of arbitrary default text (default_is_dynamic over free text is value-level); C05.R2 "
               "decides that a triggered calculation is not also emitted as bind/@calculate")
ASSUMPTIONS = ["the classifier default_is_dynamic is treated as an oracle; trees of depth <= 3 represent the placement logic, which only tests `type == repeat` along the ancestor chain"]


def scan_tokens(rules_map: dict, text: str, with_spans: bool = False):
    """re.Scanner semantics on the folded lexer table: at each position the first rule (in table order) that matches
    wins.  The table is a constant of the analysed program; this is a membership decision on that constant."""
    import re as _re
    rx = _re.compile("|".join(f"(?P<g{i}>{pat})" for i, pat in enumerate(rules_map.values())))
    names = list(rules_map)
    out, pos = [], 0
    spans = []
    while pos < len(text):
        m = rx.match(text, pos)
        if not m or m.end() == pos:
            break
        out.append((names[int(m.lastgroup[1:])], m.group(0)))
        spans.append((m.start(), m.end()))
        pos = m.end()
    if with_spans:
        return [(n, v, a, b) for (n, v), (a, b) in zip(out, spans)], text[pos:]
    return out, text[pos:]


# (default text, question type) -> is it a dynamic default?  Written from the ODK XForms spec / XLSForm docs: a literal
# (text, number incl. negative and leading-dot decimals, date, geo coordinates, quoted string) is static; anything with
# a function call, an operator, a reference, a predicate or a path is an expression
CLASSIFIER_SPEC = [
    ("abc", "text", False), ("hello world", "text", False), ("1", "integer", False), ("-1", "integer", False), ("1.5", "decimal", False),
    ("-1.5", "decimal", False), (".5", "decimal", False), ("-.5", "decimal", False), ("-.25", "range", False), ("10", "range", False),
    ("2022-03-14", "date", False), ("2022-03-14", "text", False), ("2022-03-14T10:30:00", "dateTime", False), ("10:30:00", "time", False),
    ("12.5 -11.2 0 0", "geopoint", False), ("-12.5 11.2 0 0", "geopoint", False), ("'quoted'", "text", False), ("a-b", "text", False),
    ("now()", "dateTime", True), ("today()", "date", True), ("1 + 1", "integer", True), ("2 * 3", "integer", True), ("${q1}", "text", True),
    ("concat('a', ${q1})", "text", True), ("../q1", "text", False), ("uuid()", "text", True), ("if(${a} > 1, 'x', 'y')", "text", True),
    ("7 div 2", "decimal", True), ("5 mod 2", "integer", True), ("instance('x')/root/item[1]/name", "text", True), ("a | b", "text", True),
    # a reference or a function call makes a default dynamic whatever else it contains, also for the date-like types
    # whose literals contain hyphens
    ("${d1} - ${n}", "date", True), ("decimal-date-time(${d1}) - 7", "date", True), ("today() - 1", "date", True), ("${lat} - 1", "geopoint", True),
    ("2022-03-14", "date", False), ("1 - 1", "integer", True),
    # ... wherever the hyphen stands: before the reference / call as well as after it
    ("1 - today()", "date", True), ("7 - ${n}", "date", True), ("-1 * ${x}", "geopoint", True), ("0 - ${lat}", "geopoint", True), ("now() - 3600", "dateTime", True), ("3600 - now()", "dateTime", True),
    # an instance() path is a function call whatever follows it - with no predicate, operator or reference at all
    ("instance('fruits')/root/item/name", "text", True), ("instance('x')/root/item", "select_one", True), ("count(instance('x')/root/item)", "integer", True),
    ("pulldata('f', 'a', 'b', 'c')", "text", True), ("once(uuid())", "text", True),
    # a positional predicate makes a path an expression (it is not literal text), as the classifier's contract says
    ("../q1[1]", "text", True), ("item[2]", "text", True), ("/data/r[position() = 1]/q", "text", True),
    # xsd:time / xsd:dateTime literals with fractional seconds and a zone offset are literals
    ("12:30:00.123+01:00", "time", False), ("10:30:00.5", "time", False), ("2022-03-14T10:30:00.5Z", "dateTime", False), ("2022-03-14T10:30:00.25-03:00", "dateTime", False),
    # comparison / boolean words and markup characters in a literal text are just text
    ("a < b", "text", False), ("<none>", "text", False), ("k=v", "text", False), ("R&D <b>x</b> ]]>", "text", False), ("this and that", "text", False), ("yes or no", "text", False),
]


def _classifier_rule(ctx, prop="C10", rid="C10.R6"):
    from ..interp import Obj as _Obj
    r6 = Rule(prop, rid, "static/dynamic classification of default texts", floor=25,
              necessary="a literal classified as an expression leaves the node empty and adds a setvalue; an expression classified as a literal is written verbatim")
    rules_map = ctx.consts.get("pyxform.parsing.expression", "LEXER_RULES", rid)
    if not isinstance(rules_map, dict) or not all(isinstance(v, str) for v in rules_map.values()):
        raise AnalysisError(rid, "LEXER_RULES did not fold to a table of patterns")
    dd = ctx.func("pyxform.utils:default_is_dynamic", rid)
    # table agreement: every token name the classifier tests for is a rule the lexer can emit (a name that no rule
    # carries never matches, silently)
    import re as _re_t
    tested = set()
    for n_ in ast.walk(dd.node):
        if isinstance(n_, ast.Constant) and isinstance(n_.value, str) and _re_t.fullmatch(r"[A-Z][A-Z0-9]*(_[A-Z0-9]+)+", n_.value):
            tested.add(n_.value)
        elif isinstance(n_, ast.Name) and n_.id.isupper():
            v_ = ctx.consts.try_get(dd.module.name, n_.id)
            if isinstance(v_, set | frozenset | tuple | list):
                tested |= {x for x in v_ if isinstance(x, str) and _re_t.fullmatch(r"[A-Z][A-Z0-9]*(_[A-Z0-9]+)+", x)}
    unknown = sorted(t for t in tested if t not in rules_map)
    r6.check(bool(tested) and not unknown, "default_is_dynamic:token names", f"the token names tested ({sorted(tested)}) are rules of the lexer", dd.loc(),
             why_fail=f"not lexer rules: {unknown}")

    def h_parse(i, a, k, n):
        text = a[0] if a else k.get("text")
        toks, rest = scan_tokens(rules_map, text)
        return ([_Obj(None, {"name": nm, "value": v}, name=f"tok:{nm}") for nm, v in toks], rest)

    for text, qtype, want in CLASSIFIER_SPEC:
        it = ctx.interp(rid, hooks={"fnname:parse_expression": h_parse})
        it.reset([])
        try:
            got = it.call_function(dd, [text, qtype], {}, None, dd.node)
        except Raised as e:
            got = f"raises {e.exc_name}"
        if text == "../q1":
            continue  # a bare relative path is not an expression the classifier is documented to recognise
        r6.check(got is want, f"default_is_dynamic[{text!r}, {qtype}]", f"{'dynamic (setvalue)' if want else 'static (literal in the instance)'}", dd.loc(), why_fail=f"got {got!r}")
    return r6


def lexer_hook(ctx, rid):
    """A model of pyxform.parsing.expression.parse_expression for other checks: the package's own lexer table
    (LEXER_RULES, folded from source) applied by the analyser's scanner; tokens carry name / value / start / end."""
    from ..interp import Obj as _Obj
    rules_map = ctx.consts.get("pyxform.parsing.expression", "LEXER_RULES", rid)

    def h_parse(i, a, k, n):
        text = a[0] if a else k.get("text")
        toks, rest = scan_tokens(rules_map, text)
        return ([_Obj(None, {"name": nm, "value": v}, name=f"tok:{nm}") for nm, v in toks], rest)
    return h_parse


STATIC_DEFAULTS = ["42", "'f-g'", '"N/A"', "''", '""', "'yes' or 'no'", "'", '"<b>" & "]]>"', "a < b & c > d", "&amp;", "<!-- x -->", " padded ", "0", "1.50", "-", "yes",
                   "ümlaut 😀", "${not_a_ref", "a'b", 'say "hi"', "( x )", "[1]", "line1\nline2"]


def static_default_verbatim(ctx, rule, rid):
    """A default the classifier calls static is the node's literal content, character for character: Question.xml_instance
    evaluated on adversarial texts (quoted, markup-like, entity-like, padded) with the classifier answering 'static'."""
    repo = ctx.repo
    qcls = repo.cls("pyxform.question:InputQuestion")
    xi = repo.cls("pyxform.question:Question").methods["xml_instance"]
    gt = repo.cls("pyxform.section:Section").methods["generate_repeating_template"]
    rcls = repo.cls("pyxform.section:RepeatingSection")
    for d in STATIC_DEFAULTS:
        q = _mk(ctx, qcls, "q1", default=d, type="text", bind={"type": "string"})
        survey = Obj(None, {}, name="survey")
        it = ctx.interp(rid, hooks={"fnname:node": node_hook, "fnname:default_is_dynamic": lambda i, a, k, n: False,
                                    "fnname:insert_xpaths": lambda i, a, k, n: a[-2] if len(a) >= 2 else a[0]})
        it.reset([])
        try:
            inst = it.call_function(xi, [q], {"survey": survey}, None, xi.node)
            got = inst.text if isinstance(inst, NodeVal) else repr(inst)
        except Raised as e:
            got = f"raises {e.exc_name}"
        rule.check(got == d, f"xml_instance[static default {d!r}]", "the instance node's content is the default exactly as written", xi.loc(), why_fail=f"node content {got!r}")
        # ... and the repeat template copy carries the same text
        rep = _mk(ctx, rcls, "r", type="repeat", children=[q])
        q.attrs["parent"] = rep
        it.reset([])
        try:
            tmpl = it.call_function(gt, [rep], {"survey": survey}, None, gt.node)
            kids = [c for c in (tmpl.children if isinstance(tmpl, NodeVal) else []) if isinstance(c, NodeVal)]
            got_t = kids[0].text if len(kids) == 1 else repr(tmpl)
        except Raised as e:
            got_t = f"raises {e.exc_name}"
        rule.check(got_t == d, f"repeat template[static default {d!r}]", "the jr:template copy carries the same literal", gt.loc(), why_fail=f"template content {got_t!r}")


def run(ctx):
    repo = ctx.repo
    rules = []
    qcls = repo.cls("pyxform.question:InputQuestion")
    base_q = repo.cls("pyxform.question:Question")
    se = repo.cls("pyxform.survey_element:SurveyElement")
    scls = repo.cls("pyxform.survey:Survey")
    gcls = repo.cls("pyxform.section:GroupedSection")
    rcls = repo.cls("pyxform.section:RepeatingSection")

    def hooks(dyn_values, calls):
        def h_dyn(i, a, k, n):
            calls.append(tuple(a))
            return a[0] in dyn_values

        def h_ix(i, a, k, n):
            a = list(a)
            if a and isinstance(a[0], Obj) and (a[0].name == "survey" or (a[0].cls is not None and a[0].cls.name == "Survey")) and not isinstance(a[0], str) and len(a) >= 2 and isinstance(a[1], str | Sym | SymStr):
                a = a[1:]
            ctxt = a[1] if len(a) > 1 else k.get("context")
            return Sym("SUBST", truthy=True, pytype=str, tags=("SUBST",), attrs={"src": a[0], "context": ctxt})

        return {"fnname:node": node_hook, "fnname:default_is_dynamic": h_dyn,
                "fnname:get_xpath": lambda i, a, k, n: Sym(f"XPATH({a[0].name})", truthy=True, pytype=str, tags=("XPATH",), attrs={"of": a[0]}),
                "fnname:insert_xpaths": h_ix}

    # ------------------------------------------------------------------ R1
    r1 = Rule("C10", "C10.R1", "static literal and dynamic setvalue are complementary", floor=8,
              necessary="both (double application) or neither (default lost) for some default")
    xi = base_q.methods["xml_instance"]
    sv = se.methods["get_setvalue_node_for_dynamic_default"]
    for desc, default, dyn in (("absent", None, False), ("empty", "", False), ("static", "42", False), ("dynamic", "now()", True)):
        # the other cells of the row do not matter: a calculation and / or a trigger next to the default changes nothing
        for qtype, extra in (("text", {}), ("date", {}), ("text", {"bind": {"type": "string", "calculate": "1 + 1"}}),
                             ("text", {"bind": {"type": "string", "calculate": "now()"}, "trigger": "${t}"}), ("text", {"bind": {"type": "string", "relevant": "${a} = 1", "readonly": "true()"}})):
            calls = []
            q = _mk(ctx, qcls, "q1", default=default, type=qtype, **{"bind": {"type": "string"}, **extra})
            survey = Obj(None, {}, name="survey")
            h = hooks({"now()"}, calls)
            survey.attrs["insert_xpaths"] = h["fnname:insert_xpaths"]
            it = ctx.interp("C10.R1", hooks=h)
            it.reset([])
            inst = it.call_function(xi, [q], {"survey": survey}, None, xi.node)
            setv = it.call_function(sv, [q], {"survey": survey}, None, sv.node)
            lit = isinstance(inst, NodeVal) and inst.text is not None
            has_sv = isinstance(setv, NodeVal)
            key = f"default={desc} type={qtype}" + (f" other cells={sorted((extra.get('bind') or {}).keys() - {'type'}) + (['trigger'] if extra.get('trigger') else [])}" if extra else "")
            if default:
                r1.check(lit != has_sv and lit == (not dyn), f"xml_instance/setvalue[{key}]", "exactly one of: literal node content (static) or setvalue action (dynamic)",
                         xi.loc(), why_fail=f"literal={lit} setvalue={has_sv}")
                if lit:
                    r1.check(inst.text == str(default), f"xml_instance[{key}]:text", "the literal is the default text itself", xi.loc())
                r1.check(bool(calls) and all(c[:2] == (default, qtype) for c in calls), f"classifier args[{key}]", "both sites classify (default, type)", xi.loc(), why_fail=f"{calls}")
            else:
                r1.check(not lit and not has_sv, f"xml_instance/setvalue[{key}]", "no default: empty node and no action", xi.loc())
            if has_sv:
                ok = setv.tag == "setvalue" and isinstance(setv.attrs.get("ref"), Sym) and setv.attrs["ref"].attrs.get("of") is q \
                    and isinstance(setv.attrs.get("value"), Sym) and setv.attrs["value"].attrs.get("src") == default and setv.attrs["value"].attrs.get("context") is q
                r1.check(ok, f"setvalue[{key}]:shape", "setvalue targets the question's own node with the substituted expression", sv.loc(), why_fail=repr(setv))
                r1.check(setv.attrs.get("event") == "odk-instance-first-load", f"setvalue[{key}]:event", "outside repeats the action fires on first load only", sv.loc())
                it.reset([])
                setv2 = it.call_function(sv, [q], {"survey": survey, "in_repeat": True}, None, sv.node)
                r1.check(isinstance(setv2, NodeVal) and setv2.attrs.get("event") == "odk-instance-first-load odk-new-repeat", f"setvalue[{key}]:repeat event",
                         "inside repeats it also fires for new repeat instances", sv.loc())
    rules.append(r1)

    # the two sites decide with the same classifier for EVERY question class: a select whose default the classifier
    # calls dynamic (a choice name such as `18-plus` lexes as arithmetic) gets the action and no literal, and a static
    # one the literal and no action - whatever the choice names are
    mq_ = repo.cls("pyxform.question:MultipleChoiceQuestion")
    ocls_ = repo.cls("pyxform.question:Option")
    icls_ = repo.cls("pyxform.question:Itemset")
    rq_ = repo.cls("pyxform.question:RangeQuestion")
    for cname, ci_, extra_ in (("select one", mq_, {"itemset": "l", "list_name": "l", "choice_filter": None, "parameters": None}), ("select all that apply", mq_, {"itemset": "l", "list_name": "l", "choice_filter": None, "parameters": None}),
                               ("range", rq_, {"parameters": {"start": "1", "end": "9"}})):
        for default, dyn in (("18-plus", True), ("18-plus a", True), ("a", False), ("1-a", True), ("b a", False)):
            opts_ = tuple(_mk(ctx, ocls_, nm_, label=nm_.upper()) for nm_ in ("18-plus", "a", "b", "1-a"))
            iset_ = Obj(icls_, {"name": "l", "options": opts_, "requires_itext": False, "used_by_search": False}, name="itemset")
            q_ = _mk(ctx, ci_, "s1", default=default, type=cname, bind={"type": "string"}, choices=(iset_ if ci_ is mq_ else None), **extra_)
            calls_ = []
            h_ = hooks({"18-plus", "18-plus a", "1-a"}, calls_)
            survey_ = Obj(None, {"insert_xpaths": h_["fnname:insert_xpaths"]}, name="survey")
            it_ = ctx.interp("C10.R1", hooks=h_)
            it_.reset([])
            try:
                inst_ = it_.call_function(xi, [q_], {"survey": survey_}, None, xi.node)
                setv_ = it_.call_function(sv, [q_], {"survey": survey_}, None, sv.node)
                lit_, has_sv_ = isinstance(inst_, NodeVal) and inst_.text is not None, isinstance(setv_, NodeVal)
                why_ = f"literal={lit_} setvalue={has_sv_}"
                ok_ = lit_ != has_sv_ and lit_ == (not dyn)
            except Raised as e:
                ok_, why_ = False, f"raises {e.exc_name}"
            r1.check(ok_, f"xml_instance/setvalue[{cname}: default={default!r} classified {'dynamic' if dyn else 'static'}]", "exactly one of: literal node content (static) or setvalue action (dynamic)",
                     xi.loc(), why_fail=why_)
    static_default_verbatim(ctx, r1, "C10.R1")
    # an image row's default: a file name gets the jr://images/ prefix, an expression is left as the expression it is
    pid_ = ctx.func("pyxform.xls2json:process_image_default", "C10.R1")
    for dflt, dyn_, want_ in (("pic.jpg", False, "jr://images/pic.jpg"), ("jr://images/pic.jpg", False, "jr://images/pic.jpg"), ("my pic-2.png", False, "jr://images/my pic-2.png"),
                              ("${p}", True, "${p}"), ("concat('jr://images/', ${p})", True, "concat('jr://images/', ${p})"), ("if(${a} = 1, 'a.png', 'b.png')", True, "if(${a} = 1, 'a.png', 'b.png')"),
                              # whatever the shared classifier calls dynamic is left alone - also when it ends like a file name: the instance
                              # and setvalue builders ask the same classifier and would emit the prefixed text as an expression
                              ("photo(1).jpg", True, "photo(1).jpg"), ("${a}.jpg", True, "${a}.jpg"), ("IMG - 0001.PNG", True, "IMG - 0001.PNG"), ("concat(${a}, '.png')", True, "concat(${a}, '.png')")):
        itp_ = ctx.interp("C10.R1", hooks={"fnname:default_is_dynamic": lambda i, a, k, n, dyn_=dyn_: dyn_})
        itp_.reset([])
        try:
            got_ = itp_.call_function(pid_, [dflt], {}, None, pid_.node)
        except Raised as e:
            got_ = f"raises {e.exc_name}"
        r1.check(got_ == want_, f"process_image_default[{dflt!r}, classified {'dynamic' if dyn_ else 'static'}]", f"-> {want_!r}", pid_.loc(), why_fail=repr(got_))
    # ------------------------------------------------------------------ R2
    r2 = Rule("C10", "C10.R2", "exactly two placements, partitioned by repeat ancestry", floor=6,
              necessary="a dynamic default emitted in both places (twice) or in neither (lost), or for another repeat's rows")
    sites = []
    for fi in repo.all_functions():
        for c in walk_own(fi.node):
            if isinstance(c, ast.Call) and call_name(c) == "get_setvalue_node_for_dynamic_default":
                sites.append((fi, c))
    names = sorted(f.qualname for f, c in sites)
    r2.check(names == ["RepeatingSection._dynamic_defaults_helper", "Survey.xml_descendent_bindings"], "call sites", "the setvalue builder has exactly the model-level and the repeat-body call site",
             "", why_fail=f"{names}")
    for fi, c in sites:
        ir = kw(c, "in_repeat")
        if fi.qualname.startswith("Survey"):
            r2.check(ir is None, "Survey.xml_descendent_bindings:in_repeat", "model-level placement never uses the repeat event", fi.loc(c))
        else:
            r2.check(ir is not None and const_str(ctx, fi.module, ir) == (True, True), "RepeatingSection._dynamic_defaults_helper:in_repeat", "repeat-body placement always uses the repeat event", fi.loc(c))
    # concrete tree:  data[ q0*, g0[ q1* ], r1[ q2*, g1[ q3* ], r2[ q4* ] ] ]   (* = dynamic default)
    def tree():
        mk = lambda cls, name, **kw_: _mk(ctx, cls, name, **kw_)
        q = {n: mk(qcls, n, default="now()", type="text", bind={"type": "string"}) for n in ("q0", "q1", "q2", "q3", "q4")}
        g0 = mk(gcls, "g0", type="group", children=[q["q1"]])
        g1 = mk(gcls, "g1", type="group", children=[q["q3"]])
        r2_ = mk(rcls, "r2", type="repeat", children=[q["q4"]])
        r1_ = mk(rcls, "r1", type="repeat", children=[q["q2"], g1, r2_])
        data = mk(scls, "data", type="survey", children=[q["q0"], g0, r1_])
        for p in (g0, g1, r2_, r1_, data):
            for ch in p.attrs["children"]:
                ch.attrs["parent"] = p
        return data, r1_, r2_, q
    data, r1_, r2_, q = tree()
    calls = []
    h = hooks({"now()"}, calls)
    h["fnname:xml_bindings"] = lambda i, a, k, n: GenList([])
    h.pop("fnname:get_xpath", None)  # real paths: placement code may compare them as strings
    def _init_paths(el_):
        el_.attrs.setdefault("_survey_element_xpath", None)
        for ch_ in el_.attrs.get("children") or []:
            _init_paths(ch_)
    _init_paths(data)
    data.attrs["insert_xpaths"] = h["fnname:insert_xpaths"]
    it = ctx.interp("C10.R2", hooks=h)
    it.reset([])
    xdb = scls.methods["xml_descendent_bindings"]
    try:
        out = [n for n in it.call_function(xdb, [data], {}, None, xdb.node) if isinstance(n, NodeVal)]
    except Raised as e:
        r2.fail("model placement[tree]", f"the model-level placement evaluates ({e.exc_name}{e.exc_args})", xdb.loc())
        out = []
    def _leaf(ref):
        return ref.rsplit("/", 1)[-1] if isinstance(ref, str) else ref.attrs["of"].name
    model_targets = sorted(_leaf(n.attrs["ref"]) for n in out if n.tag == "setvalue")
    r2.check(model_targets == ["q0", "q1"], "model placement[tree]", "the model holds setvalues exactly for dynamic defaults with no repeat ancestor", xdb.loc(), why_fail=f"{model_targets}")
    r2.check(all(n.attrs.get("event") == "odk-instance-first-load" for n in out), "model placement[tree]:event", "model setvalues fire on first load only", xdb.loc())
    ddh = rcls.methods["_dynamic_defaults_helper"]
    for rep, want in ((r1_, ["q2", "q3"]), (r2_, ["q4"])):
        it.reset([])
        got = [n for n in it.call_function(ddh, [rep], {"current": rep, "survey": data}, None, ddh.node) if isinstance(n, NodeVal)]
        tg = sorted(_leaf(n.attrs["ref"]) for n in got)
        r2.check(tg == want, f"repeat placement[{rep.name}]", f"the repeat body holds setvalues exactly for {want} (nested repeats handle their own)", ddh.loc(), why_fail=f"{tg}")
        r2.check(all(n.attrs.get("event") == "odk-instance-first-load odk-new-repeat" for n in got), f"repeat placement[{rep.name}]:event", "with the new-repeat event", ddh.loc())
    # the same placement with real paths and names chosen to collide as strings: a question / group OUTSIDE the repeat
    # whose name merely starts with the repeat's name is not inside it
    from .. import trees
    tsurvey, tnames, _tall = trees.build(ctx, ("data", [("q", "member_count", {"default": "now()"}), ("r", "member", [("q", "name", {"default": "now()"})]),
                                                          ("g", "member_extras", [("q", "note", {"default": "now()"})]), ("q", "memberx", {"default": "now()"})]))
    h2 = {"fnname:node": node_hook, "fnname:default_is_dynamic": lambda i, a, k, n: a[0] == "now()", "fnname:insert_xpaths": lambda i, a, k, n: next((x for x in a if isinstance(x, str)), None),
          "fnname:xml_bindings": lambda i, a, k, n: GenList([])}
    it2 = ctx.interp("C10.R2", hooks=h2)
    it2.reset([])
    try:
        out2 = [n for n in it2.call_function(xdb, [tsurvey], {}, None, xdb.node) if isinstance(n, NodeVal)]
        refs2 = sorted(n.attrs.get("ref") for n in out2 if n.tag == "setvalue")
    except Raised as e:
        refs2 = f"raises {e.exc_name}{e.exc_args}"
    r2.check(refs2 == ["/data/member_count", "/data/member_extras/note", "/data/memberx"], "model placement[names sharing a prefix with the repeat]",
             "elements outside the repeat keep their first-load setvalue in the model even when their path starts with the repeat's path as a string", xdb.loc(), why_fail=f"{refs2}")
    it2.reset([])
    try:
        got2 = sorted(n.attrs.get("ref") for n in it2.call_function(ddh, [tnames["member"]], {"current": tnames["member"], "survey": tsurvey}, None, ddh.node) if isinstance(n, NodeVal))
    except Raised as e:
        got2 = f"raises {e.exc_name}"
    r2.check(got2 == ["/data/member/name"], "repeat placement[names sharing a prefix with the repeat]", "the repeat body holds the setvalue of its own question only", ddh.loc(), why_fail=f"{got2}")
    # every section kind the builder can place inside a repeat holds questions: a plain group, the expanded form of a
    # `begin loop` block (a GroupedSection whose type stays "loop"; its dump says "group"), groups nested in those
    lsurvey, lnames, _lall = trees.build(ctx, ("data", [("r", "rep", [("q", "direct", {"default": "now()"}),
                                                                      ("g", "grp", [("q", "in_group", {"default": "now()"}), ("g", "inner", [("q", "in_inner", {"default": "now()"})])]),
                                                                      ("g", "lp", [("g", "lp_col", [("q", "in_loop", {"default": "now()"})])]),
                                                                      ("r", "nested", [("q", "in_nested", {"default": "now()"})])])]))
    lnames["lp"].attrs["type"] = "loop"
    it2.reset([])
    try:
        got3 = sorted(n.attrs.get("ref").rsplit("/", 1)[-1] for n in it2.call_function(ddh, [lnames["rep"]], {"current": lnames["rep"], "survey": lsurvey}, None, ddh.node) if isinstance(n, NodeVal))
    except Raised as e:
        got3 = f"raises {e.exc_name}{e.exc_args}"
    r2.check(got3 == ["direct", "in_group", "in_inner", "in_loop"], "repeat placement[group, nested group and expanded loop inside the repeat]",
             "the repeat body holds the setvalue of every question below it that is not inside a nested repeat, whatever kind of section holds it", ddh.loc(), why_fail=f"{got3}")
    # the repeat control appends those nodes to the <repeat> element
    rx = rcls.methods["xml_control"]
    apps = [c for c in walk_own(rx.node) if isinstance(c, ast.Call) and call_name(c) == "appendChild" and norm(c.func.value) == "repeat_node"]
    loops = [x for x in walk_own(rx.node) if isinstance(x, ast.For) and "_dynamic_defaults_helper" in norm(x.iter)]
    r2.check(len(loops) == 1 and any(c in list(ast.walk(loops[0])) for c in apps), "RepeatingSection.xml_control", "the helper's setvalues are appended inside the <repeat> body", rx.loc())
    # a repeat whose rows are all invisible (calculates) still has a body element: it is the only place where the
    # dynamic defaults of its rows are applied for new repeat instances
    rxc = rcls.methods["xml_control"]
    for n_hidden, n_visible in ((1, 0), (2, 0), (1, 1)):
        kids_ = [_mk(ctx, qcls, f"c{j}", type="calculate", default="uuid()", bind={"type": "string"}, control=None, label=None) for j in range(n_hidden)]
        kids_ += [_mk(ctx, qcls, f"v{j}", type="text", default=None, bind={"type": "string"}, control={"tag": "input"}, label="V") for j in range(n_visible)]
        rep_ = _mk(ctx, rcls, "r", type="repeat", children=kids_, label="R", control={"jr:count": "3"}, bind=None)
        for k_ in kids_:
            k_.attrs["parent"] = rep_
        hr_ = hooks({"uuid()"}, [])
        hr_["fnname:build_xml"] = lambda i, a, k, n: NodeVal("input")
        hr_["fnname:xml_label"] = lambda i, a, k, n: NodeVal("label")
        sv_stub = Obj(None, {"insert_xpaths": hr_["fnname:insert_xpaths"], "get_trigger_values_for_question_name": lambda i, a, k, n: []}, name="survey")
        itr_ = ctx.interp("C10.R2", hooks=hr_)
        itr_.reset([])
        try:
            ctl_ = itr_.call_function(rxc, [rep_], {"survey": sv_stub}, None, rxc.node)
            found_ = []

            def walk_(n_):
                if isinstance(n_, NodeVal):
                    if n_.tag == "setvalue":
                        ref_ = n_.attrs.get("ref")
                        found_.append(ref_.attrs.get("of").name if isinstance(ref_, Sym) and ref_.attrs.get("of") is not None else str(ref_))
                    for c_ in n_.children:
                        walk_(c_)
            walk_(ctl_)
        except Raised as e:
            ctl_, found_ = None, f"raises {e.exc_name}"
        r2.check(isinstance(ctl_, NodeVal) and found_ == [f"c{j}" for j in range(n_hidden)], f"RepeatingSection.xml_control[{n_hidden} hidden row(s) with a dynamic default, {n_visible} visible]",
                 "the repeat's body element exists and holds one setvalue per dynamic default", rxc.loc(), why_fail=f"control={ctl_!r} setvalues for {found_!r}")
    rules.append(r2)

    # ------------------------------------------------------------------ R3 / R4
    r3 = Rule("C10", "C10.R3", "trigger bookkeeping: one value-changed action per triggered calculation, nested in the triggering control", floor=8,
              necessary="a wrong tuple index, map or event emits the wrong value to the wrong node or never")
    bcls = repo.cls("pyxform.builder:SurveyElementBuilder")
    st = bcls.methods["_save_trigger"]
    it = ctx.interp("C10.R3")
    it.reset([])
    b = Obj(bcls, {}, name="builder")
    it.call_function(bcls.methods["__init__"], [b], {}, None, None)
    rows = [{"name": "c1", "type": "calculate", "trigger": " ${t} ", "bind": {"calculate": "1 + 1"}},
            {"name": "g1", "type": "background-geopoint", "trigger": "${t}"},
            {"name": "c2", "type": "text", "trigger": "${u}", "bind": {"calculate": "now()"}},
            {"name": "n1", "type": "text"}]
    for d in rows:
        it.call_function(st, [b], {"d": d}, None, st.node)
    sv_map, sg_map = dict(b.attrs.get("setvalues_by_triggering_ref", {})), dict(b.attrs.get("setgeopoint_by_triggering_ref", {}))
    r3.check(sv_map == {"${t}": [("c1", "1 + 1")], "${u}": [("c2", "now()")]}, "_save_trigger:setvalue map", "(target, expression) is recorded under the stripped triggering reference",
             st.loc(), why_fail=repr(sv_map))
    r3.check(sg_map == {"${t}": [("g1", "")]}, "_save_trigger:setgeopoint map", "background-geopoint rows go to the setgeopoint map with an empty value", st.loc(), why_fail=repr(sg_map))
    # ... for every question the builder constructs, wherever it sits: top level, group, repeat, loop template (one copy per
    # loop column), group inside a loop.  The builder is evaluated over a whole JSON form; element classes are stubs.
    cf = bcls.methods["create_survey_element_from_dict"]

    def _stub_section(i, a, k, n):
        return Obj(None, {"name": k.get("name"), "children": [], "add_child": lambda i2, a2, k2, n2: None, "add_children": lambda i2, a2, k2, n2: None,
                          "setvalues_by_triggering_ref": None, "setgeopoint_by_triggering_ref": None}, name="sec")

    built = []
    bh = {"fnname:_create_question_from_dict": lambda i, a, k, n: (built.append(k.get("d", a[0] if a else None)), Obj(None, {"name": "q"}, name="q"))[1],
          "new:GroupedSection": _stub_section, "new:RepeatingSection": _stub_section, "new:Survey": _stub_section}

    def _trig(nm, t="${t}", typ="calculate"):
        d_ = {"type": typ, "name": nm, "trigger": t}
        if typ != "background-geopoint":
            d_["bind"] = {"calculate": f"v_{nm}"}
        return d_

    FORMS = {
        "top level and group": ([_trig("a"), {"type": "group", "name": "g", "children": [_trig("b"), {"type": "text", "name": "n"}]}], {"${t}": [("a", "v_a"), ("b", "v_b")]}, {}),
        "repeat inside a group": ([{"type": "group", "name": "g", "children": [{"type": "repeat", "name": "r", "children": [_trig("a", "${u}"), _trig("p", "${u}", "background-geopoint")]}]}], {"${u}": [("a", "v_a")]}, {"${u}": [("p", "")]}),
        "loop template": ([{"type": "loop", "name": "lp", "columns": [{"name": "x", "label": "X"}, {"name": "y", "label": "Y"}], "children": [_trig("c_%(name)s")]}], {"${t}": [("c_x", "v_c_x"), ("c_y", "v_c_y")]}, {}),
        "group inside a loop template": ([{"type": "loop", "name": "lp", "columns": [{"name": "x", "label": "X"}], "children": [{"type": "group", "name": "g_%(name)s", "children": [_trig("d")]}]}], {"${t}": [("d", "v_d")]}, {}),
    }
    for fname, (kids, want_sv, want_sg) in FORMS.items():
        itf = ctx.interp("C10.R3", hooks=bh, inline=lambda fi: True)
        itf.reset([])
        bb = Obj(bcls, {}, name="builder")
        itf.call_function(bcls.methods["__init__"], [bb], {}, None, None)
        try:
            itf.call_function(cf, [bb], {"d": {"type": "survey", "name": "data", "children": kids}}, None, cf.node)
            got_sv, got_sg = dict(bb.attrs.get("setvalues_by_triggering_ref", {})), dict(bb.attrs.get("setgeopoint_by_triggering_ref", {}))
        except Raised as e:
            got_sv, got_sg = f"raises {e.exc_name}{e.exc_args}", None
        r3.check(got_sv == want_sv and got_sg == want_sg, f"builder:triggers recorded[{fname}]", "every constructed question with a trigger is in the builder's maps, once per constructed copy", cf.loc(),
                 why_fail=f"setvalue map {got_sv!r}, setgeopoint map {got_sg!r}")
    hands = [x for x in walk_own(cf.node) if isinstance(x, ast.Assign) and isinstance(x.targets[0], ast.Attribute) and x.targets[0].attr in ("setvalues_by_triggering_ref", "setgeopoint_by_triggering_ref")]
    r3.check(len(hands) == 2 and all(x.targets[0].attr == x.value.attr for x in hands), "builder:hand-over", "each map is handed to the survey under its own name", cf.loc())
    # nesting in the triggering question's control
    xc = base_q.methods["xml_control"]
    tq = _mk(ctx, qcls, "t", label="T", type="text", bind={"type": "string"}, control={"tag": "input"})
    sobj = _mk(ctx, scls, "data", type="survey", setvalues_by_triggering_ref=sv_map, setgeopoint_by_triggering_ref=sg_map, children=[tq])
    tq.attrs["parent"] = sobj
    calls = []
    h = hooks(set(), calls)
    CTRL = NodeVal("input")
    h["fnname:build_xml"] = lambda i, a, k, n: CTRL
    it = ctx.interp("C10.R3", hooks=h)
    it.reset([])
    try:
        res = it.call_function(xc, [tq], {"survey": sobj}, None, xc.node)
    except Raised as e:
        res = None
        r3.fail("Question.xml_control[t]:evaluates", f"the control of a triggering question is built from the survey's trigger tables (raises {e.exc_name}{e.exc_args})", xc.loc())
    kids = [c for c in CTRL.children if isinstance(c, NodeVal)]
    r3.check(res is CTRL and [k.tag for k in kids] == ["setvalue", "odk:setgeopoint"], "Question.xml_control[t]", "setvalue and odk:setgeopoint are nested in the triggering question's control", xc.loc(),
             why_fail=repr(kids))
    if len(kids) == 2:
        sv_, sg_ = kids
        ok = sv_.attrs.get("event") == "xforms-value-changed" and sg_.attrs.get("event") == "xforms-value-changed"
        r3.check(ok, "nested action:event", "both fire on xforms-value-changed", xc.loc())
        ref = sv_.attrs.get("ref")
        src = ref.attrs.get("derived_from", ref).attrs.get("src") if isinstance(ref, Sym) else None
        r3.check(src == "${c1}", "nested setvalue:ref", "ref is the substituted ${target} (tuple index 0)", xc.loc(), why_fail=repr(src))
        val = sv_.attrs.get("value")
        r3.check(isinstance(val, Sym) and val.attrs.get("src") == "1 + 1" and val.attrs.get("context") is tq, "nested setvalue:value", "value is the substituted calculation (tuple index 1)", xc.loc(), why_fail=repr(val))
        r3.check("value" not in sg_.attrs, "nested setgeopoint:value", "an empty expression yields no value attribute", xc.loc())
    # what else the triggering row carries does not matter: read_only in any spelling (a note is read-only too, and a
    # read-only question's value still changes by calculation), relevance, required, an appearance
    for tdesc, tbind, tctrl in (("read_only=yes", {"type": "string", "readonly": "true()"}, {"tag": "input"}), ("read_only=no", {"type": "string", "readonly": "false()"}, {"tag": "input"}),
                                ("read_only expression", {"type": "string", "readonly": "${lock} = 'yes'"}, {"tag": "input"}), ("relevant + required", {"type": "string", "relevant": "${a} > 1", "required": "true()"}, {"tag": "input"}),
                                ("appearance", {"type": "string"}, {"tag": "input", "appearance": "numbers"})):
        tq2 = _mk(ctx, qcls, "t", label="T", type="text", bind=tbind, control=tctrl)
        tq2.attrs["parent"] = sobj
        CT2 = NodeVal("input")
        h2_ = hooks(set(), [])
        h2_["fnname:build_xml"] = lambda i, a, k, n, CT2=CT2: CT2
        it2_ = ctx.interp("C10.R3", hooks=h2_)
        it2_.reset([])
        try:
            it2_.call_function(xc, [tq2], {"survey": sobj}, None, xc.node)
            tags2 = [k_.tag for k_ in CT2.children if isinstance(k_, NodeVal)]
        except Raised as e:
            tags2 = f"raises {e.exc_name}"
        r3.check(tags2 == ["setvalue", "odk:setgeopoint"], f"Question.xml_control[trigger row with {tdesc}]", "the triggered actions are nested in the triggering question's control", xc.loc(), why_fail=repr(tags2))
    # several targets behind one trigger, with and without an expression, in every order: each nested action carries
    # its own target and exactly its own expression (none when its own is empty)
    import itertools as _it3
    nsn = base_q.methods["nest_set_nodes"]
    targets = [("c1", "1 + 1"), ("c2", ""), ("c3", "now()"), ("c4", None)]
    for perm in _it3.permutations(targets, 3):
        CT = NodeVal("input")
        calls2 = []
        it = ctx.interp("C10.R3", hooks=hooks(set(), calls2))
        it.reset([])
        try:
            it.call_function(nsn, [tq, sobj, CT, "setvalue", [tuple(x) for x in perm]], {}, None, nsn.node)
            got = []
            for k_ in CT.children:
                ref_ = k_.attrs.get("ref")
                src_ = ref_.attrs.get("derived_from", ref_).attrs.get("src") if isinstance(ref_, Sym) else ref_
                v_ = k_.attrs.get("value")
                got.append((src_, v_.attrs.get("src") if isinstance(v_, Sym) else v_))
        except Raised as e:
            got = f"raises {e.exc_name}"
        want = [("${" + n_ + "}", (e_ if e_ else None)) for n_, e_ in perm]
        r3.check(got == want, f"nest_set_nodes[{[n_ for n_, _e in perm]}]", "each nested setvalue has its own ref and only its own value", nsn.loc(), why_fail=f"got {got!r}, expected {want!r}")
    # ...and is not ALSO emitted as a bind calculate, whatever the calculation text is (a truth word such as `no`
    # takes the yes/no conversion branch of the bind emitter)
    from ..xmlmodel import SurveyStub, base_hooks
    sec = repo.cls("pyxform.survey_element:SurveyElement")
    xbf = sec.methods["xml_bindings"]
    for calc in ("1 + 1", "${a} * 2", "no", "yes", "TRUE", "false", "true()"):
        for trig in ("${t}", None):
            stub = SurveyStub()
            itb = ctx.interp("C10.R3", hooks=base_hooks(stub))
            itb.reset([])
            ob = Obj(sec, {"bind": {"type": "string", "calculate": calc}, "name": "c1", "flat": None, "trigger": trig}, name="c1",
                     slots=("name", "label", "bind", "trigger", "flat", "type"))
            try:
                resb = [n for n in (itb.call_function(xbf, [ob], {"survey": stub.obj()}, None, xbf.node) or []) if n is not None]
            except Raised as e:
                r3.fail(f"xml_bindings[calculate={calc!r}, trigger={'set' if trig else 'unset'}]", f"evaluates ({e.exc_name})", xbf.loc())
                continue
            has = bool(resb) and isinstance(resb[0], NodeVal) and "calculate" in resb[0].attrs
            r3.check(has == (trig is None), f"xml_bindings[calculate={calc!r}, trigger={'set' if trig else 'unset'}]",
                     "a triggered calculation is not emitted as a bind calculate; an untriggered one is", xbf.loc())
    # a non-user-visible trigger is an error naming the target
    hq = _mk(ctx, qcls, "t", type="calculate", bind={"calculate": "1"}, control=None)
    it.reset([])
    try:
        it.call_function(xc, [hq], {"survey": sobj}, None, xc.node)
        r3.fail("Question.xml_control[hidden trigger]", "a calculate used as trigger is rejected", xc.loc())
    except Raised as r:
        r3.check("PyXFormError" in r.mro and "c1" in str(r.exc_args[0]), "Question.xml_control[hidden trigger]", "rejected with PyXFormError naming the dependent question", xc.loc())
    gt = scls.methods["get_trigger_values_for_question_name"]
    it.reset([])
    a = it.call_function(gt, [sobj, "t", "setvalue"], {}, None, gt.node)
    b2 = it.call_function(gt, [sobj, "t", "setgeopoint"], {}, None, gt.node)
    r3.check(a is not None and a == sv_map.get("${t}") and b2 is not None and b2 == sg_map.get("${t}"), "get_trigger_values_for_question_name", "looks up ${name} in the matching map", gt.loc())
    rules.append(r3)
    rules.append(_classifier_rule(ctx))

    # ------------------------------------------------------------------ R5
    r5 = Rule("C10", "C10.R5", "the repeat template is built by the same xml_instance of each child", floor=2,
              necessary="a template built another way would lose (or duplicate) static defaults in new repeat instances")
    gr = repo.cls("pyxform.section:Section").methods["generate_repeating_template"]
    calls_ = [c for c in walk_own(gr.node) if isinstance(c, ast.Call) and call_name(c) in ("xml_instance", "template_instance")]
    r5.check(sorted(call_name(c) for c in calls_) == ["template_instance", "xml_instance"], "generate_repeating_template", "children contribute child.xml_instance() (nested repeats their template)", gr.loc())
    ti = rcls.methods["template_instance"]
    r5.check(any(isinstance(c, ast.Call) and call_name(c) == "generate_repeating_template" for c in walk_own(ti.node)), "template_instance", "nested repeat templates recurse through the same builder", ti.loc())
    rules.append(r5)
    # a triggered calculation is still there when the same dict is built again (the builder only reads it)
    from .c16 import builder_input_rule
    rules.append(builder_input_rule(ctx, "C10", "C10.R7"))
    return rules
