"""C12 — container format and delivery channel do not matter (sibling agreement of the backends)."""

from __future__ import annotations

import ast

from ..astutil import call_name, const_str
from ..interp import ExtVal, FuncVal, GenList, Obj, Raised, Sym, explore, native
from ..loader import AnalysisError, norm, walk_own
from ..report import Rule

EXPLANATION = (
    "Sibling cross-check of the four container backends registered in SupportedFileTypes.get_processors(): the sheet "
    "dispatch of each (process_workbook / process_md_data / process_csv_data) is evaluated abstractly on the same "
    "representative workbook shapes (mixed-case names, an unrelated sheet, a single unnamed sheet, a blank row) and the "
    "resulting feature vectors must agree: keys are DefinitionData fields, names lower-cased, unsupported sheets "
    "skipped, single-sheet fallback, original names recorded, header dict list, blank rows kept; the two typed-cell "
    "normalisers are evaluated on one representative per value class; the empty-run scanners are evaluated at and "
    "around the documented limits (20 columns / 60 rows); the delivery-channel dispatch is checked for exhaustiveness "
    "against convert()'s annotated union."
)
NOT_DECIDED = ("THE EQUALITY ITSELF IS NOT DECIDED: that the same content yields the same XForm across containers is value-level (five "
               "third-party parsers). Only the structural agreement of the pyxform-side adapters is decided.")
ASSUMPTIONS = ["representative workbook shapes stand for their class; xlrd/openpyxl cell objects are modelled as objects with .value/.ctype"]


def _definition_fields(ctx):
    ci = ctx.repo.cls("pyxform.xls2json_backends:DefinitionData")
    return [st.target.id for st in ci.node.body if isinstance(st, ast.AnnAssign) and isinstance(st.target, ast.Name)]


SHEETS_MIXED = ["survey", "Choices", "notes", "SETTINGS"]


def _eval_backend(ctx, kind: str, sheet_names: list[str]):
    """Evaluate the sheet-dispatch part of one backend on sheets with the given names; returns result dict."""
    repo = ctx.repo
    it = ctx.interp("C12")
    it.reset([])
    if kind == "xls":
        fi = repo.func("pyxform.xls2json_backends:xls_to_dict.process_workbook")
        sheets = [Obj(None, {"name": n}, name=f"sheet:{n}") for n in sheet_names]
        wb = Obj(None, {"sheets": lambda i, a, k, n: list(sheets)}, name="wb")
        env = {"xls_to_dict_normal_sheet": native(lambda i, a, k, n: (f"rows:{k['wb_sheet'].attrs['name']}", f"hdr:{k['wb_sheet'].attrs['name']}"))}
        return it.call_function(fi, [], {"wb": wb}, env, fi.node)
    if kind == "xlsx":
        fi = repo.func("pyxform.xls2json_backends:xlsx_to_dict.process_workbook")
        wb = Sym("WB", truthy=True, attrs={"sheetnames": list(sheet_names), "getitem": lambda k: Obj(None, {"title": k}, name=f"sheet:{k}")})
        env = {"xlsx_to_dict_normal_sheet": native(lambda i, a, k, n: (f"rows:{a[0].attrs['title']}", f"hdr:{a[0].attrs['title']}"))}
        return it.call_function(fi, [], {"wb": wb}, env, fi.node)
    if kind == "md":
        fi = repo.func("pyxform.xls2json_backends:md_to_dict.process_md_data")
        struct = {n: [("type", "name"), ("text", "q")] for n in sheet_names}
        it.hooks["fnname:_md_table_to_ss_structure"] = lambda i, a, k, n: struct
        lt = repo.func("pyxform.xls2json_backends:md_to_dict.list_to_dicts")
        env = {"list_to_dicts": FuncVal(lt)}
        return it.call_function(fi, [], {"md_": "ignored"}, env, fi.node)
    if kind == "csv":
        rows = []
        for n in sheet_names:
            rows += [[n], ["", "type", "name"], ["", "text", "q"]]
        return csv_rows_to_dict(ctx, "C12", rows)
    raise AnalysisError("C12", f"unknown backend kind {kind}")


def csv_rows_to_dict(ctx, rid, rows):
    """csv_to_dict evaluated as a whole on already-split csv rows (the definition loader, the sniffer and csv.reader are
    stubs): wherever its helpers live (nested or at module level), the result for these rows is what is judged."""
    repo = ctx.repo
    fn = ctx.func("pyxform.xls2json_backends:csv_to_dict", rid)
    raw = b"survey,,,\n"
    defn = Obj(None, {"data": Obj(None, {"getvalue": lambda i, a, k, n: raw}, name="bytesio"), "file_type": None, "file_path_stem": None}, name="definition")
    it = ctx.interp(rid, hooks={"fnname:get_definition_data": lambda i, a, k, n: defn, "fnname:is_csv": lambda i, a, k, n: True,
                                "ext:csv.reader": lambda i, a, k, n: [list(r_) for r_ in rows], "ext:io.StringIO": lambda i, a, k, n: "SIO"}, inline=lambda fi: True)
    it.reset([])
    return it.call_function(fn, ["ignored"], {}, None, fn.node)


def spacer_column_obligations(ctx, r2, rid):
    """A column without a header (a spacer) between used columns: cells stay under THEIR header in every backend."""
    repo = ctx.repo
    ger = ctx.func("pyxform.xls2json_backends:get_excel_rows", rid)
    pc = ctx.func("pyxform.xls2json_backends:csv_to_dict", rid)
    lt = repo.func("pyxform.xls2json_backends:md_to_dict.list_to_dicts")

    def cell(v):
        return Obj(None, {"value": v}, name=f"cell:{v}")
    it = ctx.interp(rid)
    it.reset([])
    rows_g = [(cell("text"), cell("junk"), cell("q1"), cell(None), cell("L1")), (cell("text"), cell(None), cell("q2"), cell("x"), cell("L2"))]
    try:
        out_g = it.call_function(ger, [], {"headers": ["type", None, "name", None, "label"], "rows": rows_g, "cell_func": native(lambda i, a, k, n: a[0].attrs["value"])}, None, ger.node)
    except Raised as e:
        out_g = f"raises {e.exc_name}"
    r2.check(out_g == [{"type": "text", "name": "q1", "label": "L1"}, {"type": "text", "name": "q2", "label": "L2"}], "xls/xlsx:header-less spacer column", "cells are filed by column position, not by their rank among the named columns",
             ger.loc(), why_fail=repr(out_g)[:200])
    it.reset([])
    try:
        res = csv_rows_to_dict(ctx, rid, [["survey"], ["", "type", "", "name", "label"], ["", "text", "junk", "q1", "L1"]])
        got_c = [{k: v for k, v in row_.items() if k != ""} for row_ in (res.get("survey") or [])]
    except Raised as e:
        got_c = f"raises {e.exc_name}"
    r2.check(got_c == [{"type": "text", "name": "q1", "label": "L1"}], "csv_to_dict:header-less spacer column", "cells are filed by column position, not by their rank among the named columns",
             pc.loc(), why_fail=repr(got_c)[:200])
    it.reset([])
    try:
        dicts_g = it.call_function(lt, [[("type", None, "name", "label"), ("text", "junk", "q1", "L1")]], {}, None, None)
        got_m = [{k: v for k, v in row_.items() if k not in (None, "None", "")} for row_ in dicts_g]
    except Raised as e:
        got_m = f"raises {e.exc_name}"
    r2.check(got_m == [{"type": "text", "name": "q1", "label": "L1"}], "md_to_dict:header-less spacer column", "cells are filed by column position, not by their rank among the named columns",
             lt.loc(), why_fail=repr(got_m)[:200])


def normal_sheet_obligations(ctx, rule, rid):
    """The two Excel sheet readers themselves (header row -> rows), evaluated on a model sheet with an unnamed spacer
    column: which header list reaches the row reader decides under which header each cell is filed."""
    repo = ctx.repo

    def cell(v):
        return Obj(None, {"value": v, "ctype": ExtVal("xlrd.XL_CELL_TEXT") if isinstance(v, str) else ExtVal("xlrd.XL_CELL_EMPTY")}, name=f"cell:{v}")
    grid = [["type", None, "name", "label"], ["text", "junk", "q1", "L1"], ["text", None, "q2", "L2"]]
    want_rows = [{"type": "text", "name": "q1", "label": "L1"}, {"type": "text", "name": "q2", "label": "L2"}]
    # xlsx
    fx = repo.func("pyxform.xls2json_backends:xlsx_to_dict.xlsx_to_dict_normal_sheet")
    cells = [[cell(v) for v in row] for row in grid]
    sheet = Obj(None, {"rows": iter([tuple(r) for r in cells]),
                       "iter_rows": lambda i, a, k, n: iter([tuple(r[: k.get("max_col", len(r))]) for r in cells[k.get("min_row", 1) - 1:]])}, name="xlsx sheet")
    it = ctx.interp(rid)
    it.reset([])
    try:
        rows_x, hdr_x = it.call_function(fx, [sheet], {}, {"xlsx_clean_cell": native(lambda i, a, k, n: (k.get("cell") or a[0]).attrs["value"])}, fx.node)
        got = (rows_x, hdr_x)
    except Raised as e:
        got = f"raises {e.exc_name}{e.exc_args}"
    rule.check(isinstance(got, tuple) and got[0] == want_rows and got[1] == [{"type": None, "name": None, "label": None}], "xlsx_to_dict:sheet with a spacer column",
               "cells are filed under the header of their own column", fx.loc(), why_fail=repr(got)[:220])
    # xls
    fl = repo.func("pyxform.xls2json_backends:xls_to_dict.xls_to_dict_normal_sheet")
    cells2 = [[cell(v) for v in row] for row in grid]
    wsheet = Obj(None, {"get_rows": lambda i, a, k, n: iter([tuple(r) for r in cells2]), "nrows": len(cells2),
                        "cell": lambda i, a, k, n: cells2[a[0]][a[1]]}, name="xls sheet")
    it = ctx.interp(rid, hooks={"fnname:xls_clean_cell": lambda i, a, k, n: (k.get("cell") or a[2]).attrs["value"]})
    it.reset([])
    try:
        rows_l, hdr_l = it.call_function(fl, [Obj(None, {"datemode": 0}, name="wb"), wsheet], {}, {"xls_clean_cell": native(lambda i, a, k, n: (k.get("cell") or a[2]).attrs["value"])}, fl.node)
        got = (rows_l, hdr_l)
    except Raised as e:
        got = f"raises {e.exc_name}{e.exc_args}"
    rule.check(isinstance(got, tuple) and got[0] == want_rows and got[1] == [{"type": None, "name": None, "label": None}], "xls_to_dict:sheet with a spacer column",
               "cells are filed under the header of their own column", fl.loc(), why_fail=repr(got)[:220])


def run(ctx):
    repo = ctx.repo
    rules = []
    fields = set(_definition_fields(ctx))
    supported = ctx.consts.get("pyxform.constants", "SUPPORTED_SHEET_NAMES", "C12")
    # backends from the registry
    gp = repo.func("pyxform.xls2json_backends:SupportedFileTypes.get_processors")
    procs = set()
    for x in walk_own(gp.node):
        if isinstance(x, ast.Dict):
            for v in x.values:
                procs.add(norm(v))
    kinds = {"xls_to_dict": "xls", "xlsx_to_dict": "xlsx", "md_to_dict": "md", "csv_to_dict": "csv"}
    r0 = Rule("C12", "C12.R0", "backend registry", floor=2, necessary="an unregistered or unknown backend is outside the cross-check")
    r0.check(procs == set(kinds), "SupportedFileTypes.get_processors", "the registered processors are the four backends this check compares", gp.loc(), why_fail=repr(sorted(procs)))
    # without an explicit type the readers are tried in table order and the first one that does not refuse wins; the csv
    # reader refuses nothing that contains a few commas (a Markdown table with commas in a label parses as a csv without
    # sheets), so every more specific reader - Markdown in particular - must be tried before it
    order = []
    for x in walk_own(gp.node):
        if isinstance(x, ast.Dict):
            order = [norm(v) for v in x.values]
    r0.check(bool(order) and order[-1] == "csv_to_dict" and "md_to_dict" in order and order.index("md_to_dict") < order.index("csv_to_dict"), "SupportedFileTypes.get_processors:order",
             "the csv reader (which accepts any text with commas) is tried last, after the Markdown reader", gp.loc(), why_fail=f"order {order}")
    sft = repo.cls("pyxform.xls2json_backends:SupportedFileTypes")
    exts = sorted(m.value for m in ctx.consts.interp.enum_members(sft))
    r0.check(exts == [".csv", ".md", ".xls", ".xlsx", ".xlsm"] or sorted(exts) == sorted([".csv", ".md", ".xls", ".xlsx", ".xlsm"]), "SupportedFileTypes", "supported container types are md, csv, xls, xlsx, xlsm", sft.module.relpath, why_fail=repr(exts))
    rules.append(r0)

    # ------------------------------------------------------------------ R1 / R2
    r1 = Rule("C12", "C12.R1", "every key a backend produces is a DefinitionData field", floor=4,
              necessary="an unknown key makes DefinitionData(**result) raise TypeError: the workbook converts in one container and crashes in another")
    r2 = Rule("C12", "C12.R2", "sibling feature vectors of the backends agree", floor=16,
              necessary="a backend deviating on a normalisation yields a different form (or different row numbers) for the same content")
    vectors = {}
    for kind in ("xls", "xlsx", "md", "csv"):
        try:
            res = _eval_backend(ctx, kind, SHEETS_MIXED)
        except Raised as r:
            r1.fail(f"{kind}:dispatch", f"sheet dispatch evaluates ({r.exc_name}{r.exc_args})", "pyxform/xls2json_backends.py")
            continue
        keys = set(res)
        bad = sorted(k for k in keys if k not in fields)
        r1.check(not bad, f"{kind}_to_dict:result keys", "all result keys are DefinitionData fields (unrelated sheets are not passed on)", "pyxform/xls2json_backends.py",
                 why_fail=f"keys not accepted by DefinitionData: {bad}")
        vec = {
            "lower-cases sheet names": "choices" in keys and "settings" in keys and "Choices" not in keys,
            "skips unsupported sheets": "notes" not in keys and "notes_header" not in keys,
            "records original names": res.get("sheet_names") == SHEETS_MIXED,
            "emits <sheet>_header": all(f"{s}_header" in keys for s in ("survey", "choices", "settings")),
        }
        try:
            single = _eval_backend(ctx, kind, ["Sheet1"])
            vec["single unnamed sheet is the survey"] = "survey" in single and "sheet1" not in single
        except Raised as r:
            vec["single unnamed sheet is the survey"] = False
        vectors[kind] = vec
    # an Excel workbook may hold a stray copy of a sheet whose name differs by surrounding blanks (` settings `, a draft
    # or back-up): the sheet that carries the exact name is the one that is read - never replaced by the copy
    for kind in ("xls", "xlsx"):
        for names_ in (["survey", "settings", " settings "], ["survey", " settings ", "settings"], ["survey", "choices", "choices "], ["survey ", "survey", "settings"]):
            try:
                res_ = _eval_backend(ctx, kind, names_)
            except Raised as r:
                r2.fail(f"{kind}_to_dict:stray sheet copy {names_!r}", f"evaluates ({r.exc_name}{r.exc_args})", "pyxform/xls2json_backends.py")
                continue
            exact_ = [n for n in names_ if n == n.strip()]
            bad_ = [n for n in exact_ if res_.get(n) != f"rows:{n}" or res_.get(f"{n}_header") != f"hdr:{n}"]
            r2.check(not bad_, f"{kind}_to_dict:stray sheet copy {names_!r}", "each exactly named sheet supplies its own rows and header", "pyxform/xls2json_backends.py",
                     why_fail=f"{ {n: res_.get(n) for n in bad_} }")
    feats = sorted({f for v in vectors.values() for f in v})
    for f in feats:
        for kind, v in vectors.items():
            r2.check(v.get(f) is True, f"{kind}_to_dict:{f}", f"backend {f} (as its siblings do)", "pyxform/xls2json_backends.py",
                     why_fail=f"siblings: { {k: vv.get(f) for k, vv in vectors.items()} }")

    # blank rows are kept (row numbers in messages are sheet positions)
    ger = ctx.func("pyxform.xls2json_backends:get_excel_rows", "C12.R2")
    def cell(v):
        return Obj(None, {"value": v}, name=f"cell:{v}")
    it = ctx.interp("C12.R2")
    it.reset([])
    rows = [(cell("text"), cell("q1")), (cell(None), cell("")), (cell("text"), cell("q2")), (cell(None), cell(None))]
    out = it.call_function(ger, [], {"headers": ["type", "name"], "rows": rows, "cell_func": native(lambda i, a, k, n: a[0].attrs["value"])}, None, ger.node)
    r2.check(out == [{"type": "text", "name": "q1"}, {}, {"type": "text", "name": "q2"}], "xls/xlsx:keeps blank rows", "a blank row inside the data stays as an empty row; trailing blanks are trimmed",
             ger.loc(), why_fail=repr(out))
    # csv
    pc = ctx.func("pyxform.xls2json_backends:csv_to_dict", "C12.R2")
    res = csv_rows_to_dict(ctx, "C12.R2", [["survey"], ["", "type", "name"], ["", "text", "q1"], ["", "", ""], ["", "text", "q2"]])
    r2.check(res.get("survey") == [{"type": "text", "name": "q1"}, {}, {"type": "text", "name": "q2"}], "csv_to_dict:keeps blank rows", "a blank row inside the data stays as an empty row (as xls/xlsx do)",
             pc.loc(), why_fail=repr(res.get("survey")))
    res = csv_rows_to_dict(ctx, "C12.R2", [["survey"], ["", " type ", "name"], ["", " text ", ""]])
    r2.check(res.get("survey") == [{"type": "text"}] and res.get("survey_header") == [{"type": None, "name": None}], "csv_to_dict:strips cells, drops empty cells", "cell text is stripped and empty cells are omitted",
             pc.loc(), why_fail=repr(res))
    # a reader's header row and its data rows name the columns alike (the header pass looks every row key up in the header
    # row): a header with a run of spaces, outer spaces or a tab inside
    for hdr_ in ("constraint  message", "label::English  (en)", "my\tcolumn", "Mixed  Case  Header"):
        try:
            res_h = csv_rows_to_dict(ctx, "C12.R2", [["survey"], ["", "type", hdr_], ["", "text", "v"]])
            keys_h = set((res_h.get("survey") or [{}])[0])
            hdr_h = set((res_h.get("survey_header") or [{}])[0])
        except Raised as e:
            keys_h, hdr_h = {f"raises {e.exc_name}"}, set()
        r2.check(keys_h <= hdr_h and len(keys_h) == 2, f"csv_to_dict:header row vs row keys[{hdr_!r}]", "every key of a data row is a key of the header row", pc.loc(), why_fail=f"row keys {sorted(keys_h)} header {sorted(hdr_h)}")
        it.reset([])
        it.hooks["fnname:_md_table_to_ss_structure"] = lambda i, a, k, n, hdr_=hdr_: {"survey": [("type", hdr_), ("text", "v")]}
        try:
            pm_h = repo.func("pyxform.xls2json_backends:md_to_dict.process_md_data")
            lt_h = repo.func("pyxform.xls2json_backends:md_to_dict.list_to_dicts")
            res_m = it.call_function(pm_h, [], {"md_": "ignored"}, {"list_to_dicts": FuncVal(lt_h)}, pm_h.node)
            keys_m = set((res_m.get("survey") or [{}])[0])
            hdr_m = set((res_m.get("survey_header") or [{}])[0])
        except Raised as e:
            keys_m, hdr_m = {f"raises {e.exc_name}"}, set()
        finally:
            it.hooks.pop("fnname:_md_table_to_ss_structure", None)
        r2.check(keys_m <= hdr_m and len(keys_m) == 2, f"md_to_dict:header row vs row keys[{hdr_!r}]", "every key of a data row is a key of the header row", mt_loc(ctx), why_fail=f"row keys {sorted(keys_m)} header {sorted(hdr_m)}")
    # the per-cell cleaners of the two Excel readers agree with the text readers: text is trimmed, a cell of blanks is no
    # cell, typed values are spelled as text
    XT = ExtVal("xlrd.XL_CELL_TEXT")
    XN = ExtVal("xlrd.XL_CELL_NUMBER")
    for cname_, fq_ in (("xlsx_clean_cell", "pyxform.xls2json_backends:xlsx_to_dict.xlsx_clean_cell"), ("xls_clean_cell", "pyxform.xls2json_backends:xls_to_dict.xls_clean_cell")):
        fcc = repo.find_func(fq_)
        if fcc is None:
            r2.note(f"{cname_} is no longer a nested helper of its reader; per-cell cleaning is judged through the readers only")
            continue
        for desc_c, val_c, ctype_c, want_c in (("padded text", "  age ", XT, "age"), ("text with inner spaces", " a  b ", XT, "a  b"), ("only blanks", "   ", XT, None), ("empty", "", XT, None), ("none", None, XT, None),
                                               ("integral number", 3.0, XN, "3"), ("tab-padded text", "\ttext\n", XT, "text")):
            it.reset([])
            cell_c = Obj(None, {"value": val_c, "ctype": ctype_c}, name="cell")
            try:
                if cname_ == "xlsx_clean_cell":
                    got_c = it.call_function(fcc, [cell_c, 2, "type"], {}, None, fcc.node)
                else:
                    got_c = it.call_function(fcc, [Obj(None, {"datemode": 0}, name="wb"), Obj(None, {"name": "survey"}, name="sheet"), cell_c, 2, "type"], {}, None, fcc.node)
            except Raised as e:
                got_c = f"raises {e.exc_name}"
            r2.check(got_c == want_c, f"{cname_}[{desc_c}]", f"-> {want_c!r}", fcc.loc(), why_fail=repr(got_c))
    spacer_column_obligations(ctx, r2, "C12.R2")
    normal_sheet_obligations(ctx, r2, "C12.R2")
    # md
    mt = ctx.func("pyxform.xls2json_backends:_md_table_to_ss_structure", "C12.R2")
    # only "\n" separates rows: the other characters str.splitlines() treats as line ends are legal cell content
    # (a spreadsheet cell holds them as ordinary text), so a Markdown table carrying them keeps its cells whole
    for ch_name, ch in (("U+2028 LINE SEPARATOR", "\u2028"), ("U+2029 PARAGRAPH SEPARATOR", "\u2029"), ("U+0085 NEXT LINE", "\x85"), ("U+000B VERTICAL TAB", "\x0b"), ("U+000C FORM FEED", "\x0c")):
        it.reset([])
        mdu = f"| survey |\n| | type | name | label |\n| | text | q1 | before{ch}after |\n| | text | q2 | L2 |\n"
        try:
            stu = it.call_function(mt, [mdu], {}, None, mt.node)
            rows_u = stu.get("survey") if isinstance(stu, dict) else None
            cells = [c for row in (rows_u or []) for c in row]
            oku = isinstance(rows_u, list) and len(rows_u) == 3 and any(isinstance(c, str) and c.strip() == f"before{ch}after" for c in cells)
        except Raised as e:
            oku, rows_u = False, f"raises {e.exc_name}"
        r2.check(oku, f"md_to_dict:cell containing {ch_name}", "the character stays inside its cell; the table keeps its rows", mt.loc(), why_fail=repr(rows_u)[:200])
    # a sheet that consists of its name alone (`| setings |` and nothing below it) is a sheet of the workbook: the
    # misspelling advisory is computed from the sheet names, as it is for an empty sheet of an Excel workbook
    for desc_s, md_s, want_s in (("name-only sheet last", "| survey |\n| | type | name |\n| | text | q |\n| setings |\n", ["survey", "setings"]),
                                 ("name-only sheet first", "| setings |\n| survey |\n| | type | name |\n| | text | q |\n", ["setings", "survey"]),
                                 ("name-only sheet between", "| survey |\n| | type | name |\n| entitis |\n| choices |\n| | list_name | name |\n", ["survey", "entitis", "choices"])):
        it.reset([])
        try:
            st_s = it.call_function(mt, [md_s], {}, None, mt.node)
            got_s = list(st_s) if isinstance(st_s, dict) else repr(st_s)[:80]
        except Raised as e:
            got_s = f"raises {e.exc_name}"
        r2.check(got_s == want_s, f"md_to_dict:sheet names[{desc_s}]", f"the sheets are {want_s}", mt.loc(), why_fail=repr(got_s))
    # '#' is a comment only at the start of a line or after the last cell: a cell whose text begins with (or contains) '#'
    # is cell text
    for cell_text in ("# of children", "#hashtag", "room #3", "a # b", "#"):
        it.reset([])
        mdh = f"| survey |\n| | type | name | label | hint |\n| | integer | n | {cell_text} | after |\n"
        try:
            sth = it.call_function(mt, [mdh], {}, None, mt.node)
            rowh = (sth.get("survey") or [None, None])[1] if isinstance(sth, dict) else None
        except Raised as e:
            rowh = f"raises {e.exc_name}"
        r2.check(isinstance(rowh, tuple) and [c for c in rowh] == ["integer", "n", cell_text, "after"], f"md_to_dict:cell text {cell_text!r}", "a '#' inside a cell is cell text; the cells to its right are kept", mt.loc(),
                 why_fail=repr(rowh))
    it.reset([])
    try:
        stc = it.call_function(mt, ["# a comment line\n| survey |\n| | type | name | # trailing comment\n| | text | q |\n"], {}, None, mt.node)
        okc_ = isinstance(stc, dict) and stc.get("survey") == [("type", "name"), ("text", "q")]
    except Raised as e:
        okc_, stc = False, f"raises {e.exc_name}"
    r2.check(okc_, "md_to_dict:comments", "a line starting with '#' and text after the last cell are comments", mt.loc(), why_fail=repr(stc)[:200])
    it.reset([])
    md = "| survey |\n| | type | name |\n| | text | q1 |\n| | | |\n| | text | q2 |\n"
    st = it.call_function(mt, [md], {}, None, mt.node)
    rows_md = st.get("survey") if isinstance(st, dict) else None
    r2.check(isinstance(rows_md, list) and len(rows_md) == 4, "md_to_dict:keeps blank rows", "a blank row inside the data stays as an empty row (as xls/xlsx do)", mt.loc(),
             why_fail=f"{len(rows_md) if isinstance(rows_md, list) else rows_md} table rows for header + 3 data rows")
    it.reset([])
    st = it.call_function(mt, ["| survey |\n| | type  | name |\n| |  text | |\n"], {}, None, mt.node)
    # a data row whose cells hold only dashes / colons (a `-` delimiter, `:` or `--` placeholders) is data, not a separator
    for desc_md, text_md, want_md in (("cells of dashes and colons", "| settings |\n| | delimiter | form_title | version |\n| | - | -- | : |\n", [("delimiter", "form_title", "version"), ("-", "--", ":")]),
                                      ("a single dash cell", "| settings |\n| | delimiter |\n| | - |\n", [("delimiter",), ("-",)]),
                                      ("separator line without spaces is skipped", "| survey |\n| | type | name |\n|---|---|---|\n| | text | q |\n", None)):
        it.reset([])
        try:
            st_md = it.call_function(mt, [text_md], {}, None, mt.node)
            got_md = [tuple(c_.strip() if isinstance(c_, str) else c_ for c_ in r_) for r_ in (st_md.get("settings") or st_md.get("survey") or [])] if isinstance(st_md, dict) else st_md
        except Raised as e:
            got_md = f"raises {e.exc_name}"
        if want_md is None:
            r2.check(got_md == [("type", "name"), ("text", "q")], f"md table[{desc_md}]", "-> header and one data row", mt.loc(), why_fail=repr(got_md))
        else:
            r2.check(got_md == want_md, f"md table[{desc_md}]", f"-> {want_md}", mt.loc(), why_fail=repr(got_md))
    # text that is not a Markdown table - a csv whose cells contain pipes - yields no table at all, so that the Markdown
    # reader refuses it and the csv reader gets its turn (a table row starts with `|`)
    for desc_nt, text_nt in (("csv with a regex cell", "survey,,,,\n,type,name,label,constraint\n,text,q,Q,\"regex(., '^(yes|no|maybe)$')\"\n,text,r,R,\"regex(., '^(a|b|c)$')\"\n"),
                             ("prose with pipes inside lines", "either a|b|c or d|e|f\nthen x | y | z again\n")):
        it.reset([])
        try:
            st_nt = it.call_function(mt, [text_nt], {}, None, mt.node)
        except Raised as e:
            st_nt = f"raises {e.exc_name}"
        r2.check(st_nt in ({}, None) or (isinstance(st_nt, dict) and not any(st_nt.values())), f"md table[{desc_nt}]", "no table is found", mt.loc(), why_fail=repr(st_nt)[:200])
    lt = repo.func("pyxform.xls2json_backends:md_to_dict.list_to_dicts")
    it.reset([])
    dicts = it.call_function(lt, [st["survey"]], {}, None, lt.node)
    r2.check(dicts == [{"type": "text"}], "md_to_dict:strips cells, drops empty cells", "cell text is stripped and empty cells are omitted", mt.loc(), why_fail=repr(dicts))
    # a row with more cells than the header row: the cells without a header are dropped, as the Excel readers do
    it.reset([])
    try:
        dicts = it.call_function(lt, [[("type", "name"), ("text", "q", "stray", "")]], {}, None, lt.node)
    except Raised as e:
        dicts = f"raises {e.exc_name}"
    r2.check(dicts == [{"type": "text", "name": "q"}], "md_to_dict:row longer than the header", "cells beyond the header row are dropped (no exception)", lt.loc(), why_fail=repr(dicts))
    # a sheet without any row (only its name) before another sheet
    pm = repo.func("pyxform.xls2json_backends:md_to_dict.process_md_data")
    it.reset([])
    it.hooks["fnname:_md_table_to_ss_structure"] = lambda i, a, k, n: {"survey": [], "choices": [("list_name", "name"), ("l", "a")]}
    try:
        res = it.call_function(pm, [], {"md_": "ignored"}, {"list_to_dicts": FuncVal(lt)}, pm.node)
        ok_empty = res.get("survey") == [] and res.get("survey_header") == [] and res.get("choices") == [{"list_name": "l", "name": "a"}]
    except Raised as e:
        ok_empty, res = False, f"raises {e.exc_name}"
    finally:
        it.hooks.pop("fnname:_md_table_to_ss_structure", None)
    # text in which the Markdown scanner finds no table at all (a csv whose cells contain '|'): the reader refuses it, so
    # that the next reader is tried, instead of returning a workbook without sheets
    it.reset([])
    it.hooks["fnname:_md_table_to_ss_structure"] = lambda i, a, k, n: {}
    try:
        res0 = it.call_function(pm, [], {"md_": "ignored"}, {"list_to_dicts": FuncVal(lt)}, pm.node)
        refused = f"returned {res0!r}"
    except Raised as e:
        refused = "refused" if "PyXFormError" in e.mro else f"raises {e.exc_name}"
    finally:
        it.hooks.pop("fnname:_md_table_to_ss_structure", None)
    r2.check(refused == "refused", "md_to_dict:no table found", "text without any Markdown table is refused with a PyXFormError (the caller then tries the csv reader)", pm.loc(), why_fail=refused[:160])
    r2.check(ok_empty, "md_to_dict:sheet without rows", "a sheet that has a name but no rows reads as an empty sheet (no exception)", pm.loc(), why_fail=repr(res)[:200])
    # the text readers recognise their format in the first 5000 CHARACTERS of the text, whatever the characters are:
    # a Markdown / csv definition that begins with comment lines in a multi-byte script (fewer than 5000 characters,
    # more than 5000 bytes) is the same definition as one with ASCII comments
    lead = ("# " + "\u0939\u093f\u0928\u094d\u0926\u0940 \u091f\u093f\u092a\u094d\u092a\u0923\u0940 " * 4 + "\n") * 40
    assert len(lead) < 4000 and len(lead.encode("utf-8")) > 5000
    for fq_, body_, stub_ in (("pyxform.xls2json_backends:md_to_dict", lead + "| survey |\n| | type | name | label |\n| | text | q | Q |\n", "process_md_data"),
                              ("pyxform.xls2json_backends:csv_to_dict", lead.replace("# ", "") .replace("\n", ",,,\n") + "survey,,,\n,type,name,label\n,text,q,Q\n", "process_csv_data")):
        fn_ = ctx.func(fq_, "C12.R2")
        for form_, text_ in (("multi-byte comment lines first", body_), ("table first", body_[len(lead):] if "md_to" in fq_ else body_.split("\n", 40)[-1])):
            raw_ = text_.encode("utf-8")
            defn_ = Obj(None, {"data": Obj(None, {"getvalue": lambda i, a, k, n, raw_=raw_: raw_}, name="bytesio"), "file_type": None, "file_path_stem": None}, name="definition")
            itm_ = ctx.interp("C12.R2", hooks={"fnname:get_definition_data": lambda i, a, k, n, defn_=defn_: defn_, f"fnname:{stub_}": lambda i, a, k, n: {"read": True},
                                              "ext:csv.reader": lambda i, a, k, n: "READER", "ext:io.StringIO": lambda i, a, k, n: "SIO"})
            itm_.reset([])
            try:
                out_ = itm_.call_function(fn_, ["ignored"], {}, None, fn_.node)
                got_ = "read" if out_ == {"read": True} else repr(out_)[:80]
            except Raised as e:
                got_ = f"refused ({e.exc_name})"
            r2.check(got_ == "read", f"{fn_.name}[{form_}]", "the text is recognised and handed to the reader", fn_.loc(), why_fail=got_)
    # typed-cell normalisers
    xv = ctx.func("pyxform.xls2json_backends:xls_value_to_unicode", "C12.R2")
    xs = ctx.func("pyxform.xls2json_backends:xlsx_value_to_str", "C12.R2")
    B, N, T = ExtVal("xlrd.XL_CELL_BOOLEAN"), ExtVal("xlrd.XL_CELL_NUMBER"), ExtVal("xlrd.XL_CELL_TEXT")
    for desc, xls_args, xlsx_arg, want in (("boolean true", (1, B), True, "TRUE"), ("boolean false", (0, B), False, "FALSE"), ("integral float", (3.0, N), 3.0, "3"),
                                           ("large integral float", (1234567890.0, N), 1234567890.0, "1234567890"), ("decimal", (3.5, N), 3.5, "3.5"),
                                           ("text with nbsp", ("a\xa0b", T), "a\xa0b", "a b"), ("plain text", ("abc", T), "abc", "abc"),
                                           # decimals keep their shortest round-trip form (what a text container would spell)
                                           ("one third", (1 / 3, N), 1 / 3, "0.3333333333333333"), ("two thirds", (2 / 3, N), 2 / 3, "0.6666666666666666"),
                                           ("0.1 + 0.2", (0.1 + 0.2, N), 0.1 + 0.2, "0.30000000000000004"), ("coordinate", (-1.2345678901234567, N), -1.2345678901234567, "-1.2345678901234567"),
                                           ("small", (1e-07, N), 1e-07, "1e-07"), ("negative integral", (-4.0, N), -4.0, "-4"), ("zero", (0.0, N), 0.0, "0")):
        it.reset([])
        a = it.call_function(xv, [xls_args[0], xls_args[1], 0], {}, None, xv.node)
        it.reset([])
        b = it.call_function(xs, [xlsx_arg], {}, None, xs.node)
        r2.check(a == want, f"xls_value_to_unicode[{desc}]", f"-> {want!r}", xv.loc(), why_fail=repr(a))
        r2.check(b == want, f"xlsx_value_to_str[{desc}]", f"-> {want!r}", xs.loc(), why_fail=repr(b))
    it.reset([])
    r2.check(it.call_function(xs, [7], {}, None, xs.node) == "7", "xlsx_value_to_str[int]", "-> '7'", xs.loc())
    # integer cells are exact at any size (an id, an IMEI): nothing may take them through a double
    for big in (12345678901234567, 2 ** 53 + 1, 99999999999999999999, -9007199254740993, 0, -1):
        it.reset([])
        try:
            got_big = it.call_function(xs, [big], {}, None, xs.node)
        except Raised as e:
            got_big = f"raises {e.exc_name}"
        r2.check(got_big == str(big), f"xlsx_value_to_str[integer {big}]", f"-> '{big}' (exact digits, as a text container would hold them)", xs.loc(), why_fail=repr(got_big))
    ie = ctx.func("pyxform.xls2json_backends:is_empty", "C12.R2")
    for v, want in ((None, True), ("", True), ("  \t", True), ("a", False), (0, False), (False, False)):
        it.reset([])
        r2.check(it.call_function(ie, [v], {}, None, ie.node) is want, f"is_empty[{v!r}]", f"-> {want}", ie.loc())
    rules += [r1, r2]

    # ------------------------------------------------------------------ R3
    r3 = Rule("C12", "C12.R3", "empty-run limits: up to 20 empty columns / 60 empty rows inside the data never truncate; trailing runs are trimmed exactly", floor=8,
              necessary="a limit off by one silently drops the columns/rows after a legitimate gap")
    gh = ctx.func("pyxform.xls2json_backends:get_excel_column_headers", "C12.R3")
    it = ctx.interp("C12.R3")
    for gap in (1, 19, 20):
        it.reset([])
        row = ["a"] + [None] * gap + ["b"] + [None] * 3
        out = it.call_function(gh, [], {"first_row": row}, None, gh.node)
        r3.check(out == ["a"] + [None] * gap + ["b"], f"headers[gap={gap}]", "a run of empty header cells within the limit keeps the columns after it; trailing empties are trimmed", gh.loc(), why_fail=repr(out))
    it.reset([])
    out = it.call_function(gh, [], {"first_row": ["a"] + [None] * 40}, None, gh.node)
    r3.check([h for h in out if h is not None] == ["a"] and len(out) <= 2, "headers[trailing run]", "a long trailing run of empty header cells is dropped (empty header slots are ignored downstream)", gh.loc(), why_fail=repr(out))
    it.reset([])
    out = it.call_function(gh, [], {"first_row": [" my   header ", "x"]}, None, gh.node)
    r3.check(out == ["my header", "x"], "headers[cleaning]", "header text is stripped and inner runs of spaces collapsed", gh.loc(), why_fail=repr(out))
    it.reset([])
    try:
        out = it.call_function(gh, [], {"first_row": ["type", 2024, 3.5, True]}, None, gh.node)
    except Raised as e:
        out = f"raises {e.exc_name}"
    r3.check(out == ["type", "2024", "3.5", "True"], "headers[typed cells]", "a numeric / boolean header cell is read as its text (a text container has nothing else)", gh.loc(), why_fail=repr(out))
    it.reset([])
    try:
        it.call_function(gh, [], {"first_row": ["a", "b", "a"]}, None, gh.node)
        r3.fail("headers[duplicate]", "duplicate column headers are rejected", gh.loc())
    except Raised as r:
        r3.check("PyXFormError" in r.mro, "headers[duplicate]", "duplicate column headers are rejected with PyXFormError", gh.loc())
    for gap in (1, 59, 60):
        it.reset([])
        rows = [(cell("x"),)] + [(cell(None),)] * gap + [(cell("y"),)] + [(cell(None),)] * 5
        out = it.call_function(ger, [], {"headers": ["h"], "rows": rows, "cell_func": native(lambda i, a, k, n: a[0].attrs["value"])}, None, ger.node)
        r3.check(out == [{"h": "x"}] + [{}] * gap + [{"h": "y"}], f"rows[gap={gap}]", "a run of empty rows within the limit keeps the rows after it; trailing empties are trimmed", ger.loc(),
                 why_fail=f"{len(out)} rows")
    # blank rows directly under the header row count like any other blank row (row numbers in messages are sheet positions)
    for lead in (1, 2, 5):
        it.reset([])
        rows = [(cell(None),)] * lead + [(cell("x"),), (cell(None),), (cell("y"),)] + [(cell(None),)] * 3
        try:
            out = it.call_function(ger, [], {"headers": ["h"], "rows": rows, "cell_func": native(lambda i, a, k, n: a[0].attrs["value"])}, None, ger.node)
        except Raised as e:
            out = f"raises {e.exc_name}"
        r3.check(out == [{}] * lead + [{"h": "x"}, {}, {"h": "y"}], f"rows[{lead} blank row(s) under the header]", "leading blank rows are kept as empty rows, each counting one sheet row", ger.loc(),
                 why_fail=repr(out)[:160])
    tt = ctx.func("pyxform.xls2json_backends:trim_trailing_empty", "C12.R3")
    for lst, n, want in (([1, 2, 3], 0, [1, 2, 3]), ([1, 2, 3], 1, [1, 2]), ([1, 2, 3], 3, [])):
        it.reset([])
        r3.check(it.call_function(tt, [list(lst), n], {}, None, tt.node) == want, f"trim_trailing_empty[n={n}]", f"-> {want}", tt.loc())
    rules.append(r3)

    # ------------------------------------------------------------------ R4
    r4 = Rule("C12", "C12.R4", "delivery-channel dispatch is exhaustive and every branch normalises to BytesIO", floor=5,
              necessary="an input kind of convert()'s signature that falls through yields data=None and a crash in every backend")
    gdd = ctx.func("pyxform.xls2json_backends:get_definition_data", "C12.R4")
    cv = ctx.func("pyxform.xls2xform:convert", "C12.R4")
    ann = next((a.annotation for a in cv.node.args.args if a.arg == "xlsform"), None)
    members = {n.id for n in ast.walk(ann) if isinstance(n, ast.Name)} | {n.attr for n in ast.walk(ann) if isinstance(n, ast.Attribute)} if ann is not None else set()
    tested = set()
    # (the tests may sit in helpers of the dispatcher: every function reachable from the two entry points is read)
    from ..callgraph import CallGraph as _CG0
    disp_reach = _CG0(repo, ctx.consts.interp).reachable(["pyxform.xls2json_backends:get_definition_data", "pyxform.xls2json_backends:get_xlsform"])
    for fn in [f_ for f_ in repo.all_functions() if f_.fq in disp_reach and f_.module.name == "pyxform.xls2json_backends"]:
        for c in walk_own(fn.node):
            if isinstance(c, ast.Call) and call_name(c) == "isinstance" and len(c.args) == 2:
                tested |= {n.id for n in ast.walk(c.args[1]) if isinstance(n, ast.Name)}
    cover = {"str": "str", "PathLike": "PathLike", "bytes": "bytes", "BytesIO": "BytesIO", "BinaryIO": "IOBase", "dict": "dict"}
    for m in sorted(members):
        if m in cover:
            r4.check(cover[m] in tested, f"convert() input kind {m}", f"is dispatched on (isinstance … {cover[m]})", gdd.loc(), why_fail=f"tested: {sorted(tested)}")
    # the csv container is standard (RFC 4180) csv: the reader is created with the default dialect - a changed delimiter,
    # quote or escape character reads the same file as different cells (a backslash is an ordinary character)
    DIALECT_KW = {"delimiter": ",", "quotechar": '"', "doublequote": True, "skipinitialspace": False, "strict": False, "escapechar": None, "lineterminator": "\r\n"}
    cd = ctx.func("pyxform.xls2json_backends:csv_to_dict", "C12.R4")
    readers = [c for f_ in repo.all_functions() if f_.fq.startswith("pyxform.xls2json_backends:csv_to_dict") for c in walk_own(f_.node)
               if isinstance(c, ast.Call) and norm(c.func) in ("csv.reader", "reader", "csv.DictReader")]
    r4.check(len(readers) >= 1, "csv_to_dict:reader", "the csv backend reads through csv.reader", cd.loc())
    for c in readers:
        odd = []
        for k_ in c.keywords:
            okc, v_ = const_str(ctx, cd.module, k_.value)
            if k_.arg == "dialect" or (k_.arg in DIALECT_KW and not (okc and v_ == DIALECT_KW[k_.arg])):
                odd.append(f"{k_.arg}={norm(k_.value)}")
        r4.check(not odd and len(c.args) <= 1, f"csv_to_dict:{norm(c)[:50]}", "created with the default (RFC 4180) dialect", cd.loc(c), why_fail=f"non-default dialect parameters: {odd}")
    # the file is read anew on every conversion: nothing on the read path is memoised (a file replaced under the same
    # name - even with the same modification time - is a different input)
    from ..callgraph import CallGraph as _CG
    read_reach = _CG(repo, ctx.consts.interp).reachable(["pyxform.xls2json_backends:get_definition_data"])
    memo_bad = [f for f in repo.all_functions() if f.fq in read_reach and any("cache" in norm(d_) for d_ in f.node.decorator_list)]
    r4.check(not memo_bad, "get_definition_data:no memoised read", "no function on the file-reading path is memoised", gdd.loc(),
             why_fail=f"memoised: {[f.qualname for f in memo_bad]} - a later conversion of the same path can be handed the earlier file's bytes")

    def _evaluate_gdd():
        # evaluate the normalisation chain on abstract inputs
        BIO = ExtVal("io.BytesIO")
        IOObj = type("IOObj", (), {})
        def mk(kind):
            if kind == "bytes":
                return b"abc"
            if kind == "BytesIO":
                return Sym("BYTESIO", truthy=True, pytype=IOObj, tags=("BytesIO", "IOBase"), attrs={"read": lambda i, a, k, n: Sym("READ_BYTES", truthy=True, pytype=bytes)})
            if kind == "file":
                return Sym("FILE", truthy=True, pytype=IOObj, tags=("IOBase", "BufferedReader"), attrs={"read": lambda i, a, k, n: Sym("READ_BYTES", truthy=True, pytype=bytes)})
            if kind == "text":
                return "| survey |\n"
        created = []
        def h_bytesio(i, a, k, n):
            s = Sym(f"BytesIO({a[0]!r})", truthy=True, pytype=IOObj, tags=("BytesIO", "IOBase"),
                    attrs={"src": a[0], "read": lambda i2, a2, k2, n2: Sym("READ_BYTES", truthy=True, pytype=bytes)})
            created.append(s)
            return s
        path_obj = lambda exists, sfx=".xlsx": Sym("PATH", truthy=True, pytype=IOObj, attrs={"is_file": lambda i, a, k, n: exists, "stem": "stemname", "suffix": sfx, "name": "stemname" + sfx, "suffixes": [sfx],
                                                                    "read_bytes": lambda i, a, k, n: Sym("FILE_BYTES", truthy=True, pytype=bytes)})
        for kind, exists in (("bytes", False), ("BytesIO", False), ("file", False), ("text", False), ("text", True)):
            it = ctx.interp("C12.R4", hooks={"ext:io.BytesIO": h_bytesio, "ext:pathlib.Path": lambda i, a, k, n, e=exists: path_obj(e),
                                            "new:Definition": lambda i, a, k, n: dict(k), "new:SupportedFileTypes": lambda i, a, k, n: Sym("FT", truthy=True)})
            it.reset([])
            created.clear()
            inp = mk(kind)
            try:
                d = it.call_function(gdd, [], {"definition": inp}, None, gdd.node)
            except Raised as r:
                r4.fail(f"get_definition_data[{kind}{', existing path' if exists else ''}]", f"evaluates ({r.exc_name}{r.exc_args})", gdd.loc())
                continue
            data = d.get("data") if isinstance(d, dict) else None
            ok = isinstance(data, Sym) and "BytesIO" in data.tags
            r4.check(ok, f"get_definition_data[{kind}{', existing path' if exists else ''}]", "data is normalised to a BytesIO", gdd.loc(), why_fail=repr(d))
            if kind == "BytesIO":
                r4.check(data is inp, "get_definition_data[BytesIO]:identity", "a BytesIO is used as is", gdd.loc())
            stem = d.get("file_path_stem") if isinstance(d, dict) else None
            r4.check((stem == "stemname") == (kind == "text" and exists), f"get_definition_data[{kind}{', existing path' if exists else ''}]:stem",
                     "the file stem is set only when a file was actually read", gdd.loc(), why_fail=repr(stem))
        # a file whose suffix is not one of the supported (lower-case) ones is still read and still names the form
        from ..interp import Raised as _R

        def h_sft(i, a, k, n):
            raise _R("ValueError", ("not a valid SupportedFileTypes",), n, ("ValueError", "Exception", "BaseException"))
        for sfx_ in (".xlsx", ".XLSX", ".Xls", ".data"):
            it = ctx.interp("C12.R4", hooks={"ext:io.BytesIO": h_bytesio, "ext:pathlib.Path": lambda i, a, k, n, sfx_=sfx_: path_obj(True, sfx_), "new:Definition": lambda i, a, k, n: dict(k), "new:SupportedFileTypes": h_sft})
            it.reset([])
            created.clear()
            try:
                d = it.call_function(gdd, [], {"definition": mk("text")}, None, gdd.node)
                stem = d.get("file_path_stem") if isinstance(d, dict) else None
                r4.check(stem == "stemname" and isinstance(d.get("data"), Sym), f"get_definition_data[existing path, unrecognised suffix {sfx_}]:stem",
                         "the fallback form name is the file stem whether or not the suffix is a recognised type hint, however it is capitalised", gdd.loc(), why_fail=repr(d))
            except Raised as r:
                r4.fail(f"get_definition_data[existing path, unrecognised suffix {sfx_}]", f"evaluates ({r.exc_name}{r.exc_args})", gdd.loc())
        # a str that names an existing file is that file, whatever the name looks like (commas or pipes in a file name
        # make it look like csv / Markdown text to the sniffers)
        for pname in ("Kenya, Nairobi, 2024, round 2, final.xlsx", "a|b|c|d|e|f.md", "plain.xlsx"):
            it = ctx.interp("C12.R4", hooks={"ext:io.BytesIO": h_bytesio, "ext:pathlib.Path": lambda i, a, k, n: path_obj(True), "new:Definition": lambda i, a, k, n: dict(k),
                                            "new:SupportedFileTypes": lambda i, a, k, n: Sym("FT", truthy=True)})
            it.reset([])
            created.clear()
            try:
                d = it.call_function(gdd, [], {"definition": pname}, None, gdd.node)
                data = d.get("data") if isinstance(d, dict) else None
                src = data.attrs.get("src") if isinstance(data, Sym) else None
                okp = isinstance(src, Sym) and src.name == "FILE_BYTES" and d.get("file_path_stem") == "stemname"
                why = repr(d)[:200]
            except Raised as r:
                okp, why = False, f"raises {r.exc_name}{r.exc_args}"
            r4.check(okp, f"get_definition_data[str naming an existing file: {pname!r}]", "the file is read (its bytes are the data, its stem the fallback name)", gdd.loc(), why_fail=why)
    if not memo_bad:
        _evaluate_gdd()
    # the dict channel: every field a reader can produce (sheets, their header rows, sheet names, fallback name) is
    # taken over unchanged - the readers hand over the header rows, and so may a caller
    gx = ctx.func("pyxform.xls2json_backends:get_xlsform", "C12.R4")
    given = {}
    for f_ in sorted(fields):
        if f_ == "sheet_names":
            given[f_] = ["survey", "choices"]
        elif f_ == "fallback_form_name":
            given[f_] = "fb"
        elif f_.endswith("_header"):
            given[f_] = [{"type": None, "name": None, "label::French (fr)": None}]
        else:
            given[f_] = [{"type": "text", "name": "q"}]
    itx = ctx.interp("C12.R4", hooks={"new:DefinitionData": lambda i, a, k, n: dict(k)})
    itx.reset([])
    try:
        got_x = itx.call_function(gx, [], {"xlsform": dict(given)}, None, gx.node)
    except Raised as e:
        got_x = f"raises {e.exc_name}{e.exc_args}"
    lost_x = sorted(k for k in given if not (isinstance(got_x, dict) and got_x.get(k) == given[k]))
    r4.check(not lost_x, "get_xlsform[dict with every DefinitionData field]", "each field of the dict reaches the workbook unchanged (sheets and their *_header rows alike)", gx.loc(),
             why_fail=f"lost or changed: {lost_x}" if isinstance(got_x, dict) else str(got_x))
    # the file type: the caller's explicit file_type wins; without one, the type recorded for the path's suffix is used
    for desc, given, recorded, want_ft in (("explicit type, path with another suffix", ".xlsx", ".xls", ".xlsx"), ("explicit type, content without suffix", ".md", None, ".md"),
                                           ("no explicit type, path with suffix", None, ".csv", ".csv"), ("no explicit type, no suffix", None, None, None)):
        seen_ft = {}
        itf = ctx.interp("C12.R4", hooks={"fnname:get_definition_data": lambda i, a, k, n, recorded=recorded: Obj(None, {"file_type": recorded, "data": "DATA", "file_path_stem": "stem"}, name="definition"),
                                          "fnname:definition_to_dict": lambda i, a, k, n, seen_ft=seen_ft: (seen_ft.update(ft=k.get("file_type", a[1] if len(a) > 1 else None)), "WB")[1]})
        itf.reset([])
        try:
            itf.call_function(gx, [], {"xlsform": "some/path", "file_type": given}, None, gx.node)
            got_ft = seen_ft.get("ft", "<reader not called>")
        except Raised as e:
            got_ft = f"raises {e.exc_name}"
        r4.check(got_ft == want_ft, f"get_xlsform[{desc}]", f"the readers are tried with file type {want_ft!r}", gx.loc(), why_fail=f"got {got_ft!r}")
    rules.append(r4)
    return rules


def mt_loc(ctx):
    return ctx.func("pyxform.xls2json_backends:md_to_dict", "C12.R2").loc()
