"""C05 — logic cells reach the right bind unchanged, with the type the table prescribes (structural clauses)."""

from __future__ import annotations

import ast
import re

from .. import spec_xlsform as spec
from ..astutil import call_name, const_str, guard_texts
from ..effects import MUTATORS, root_name, writes_in
from ..interp import GenList, NodeVal, Obj, Raised, Sym, SymStr, explore
from ..loader import AnalysisError, norm, walk_own
from ..report import Rule
from ..rowloop import param_wiring
from ..xmlmodel import SurveyStub, base_hooks
from .c04 import _type_context
from .c19 import _row_loop

EXPLANATION = (
    "Folded alias tables compared with the documented column -> bind attribute table; abstract evaluation of the "
    "generic xml_bindings over representative bind dicts (plain expressions, yes/no spellings, messages with and "
    "without references, translated messages, custom bind:: keys, with and without trigger): exactly one bind, on "
    "the element's own xpath, with exactly the input keys (minus calculate under trigger), each value the "
    "substituter applied to the original cell, the converted truth value, or the itext reference; conversion tables; "
    "alias analysis showing the shared type table is copied before row values are merged into it; extraction of "
    "parameter -> bind attribute wiring; type table vs spec (shared with C04.R5)."
)
NOT_DECIDED = ("that process_row / merge_dicts place a cell value under the right nested key for arbitrary header sets (value-level; "
               "C08's subject); what insert_xpaths does to the expression (C03)")
ASSUMPTIONS = ["summaries of node()/insert_xpaths/get_xpath record flows only", "dict insertion order is preserved (bind attribute order follows column order)"]


def truth_conversion_eval(ctx, rule, rid):
    """Every documented truth spelling in every convertible bind attribute comes out as true()/false() (evaluated on
    the bind emitter for an untriggered row); other attributes keep the word."""
    repo = ctx.repo
    se = repo.cls("pyxform.survey_element:SurveyElement")
    xb = se.methods["xml_bindings"]
    for attr in sorted(spec.CONVERTIBLE) + ["jr:constraintMsg"]:
        bad = []
        for word in spec.TRUE_SPELLINGS + spec.FALSE_SPELLINGS + ["true()", "false()"]:
            stub = SurveyStub()
            it = ctx.interp(rid, hooks=base_hooks(stub))
            it.reset([])
            o = Obj(se, {"bind": {"type": "string", attr: word}, "name": "q1", "flat": None, "trigger": None}, name="q1", slots=("name", "label", "bind", "trigger", "flat", "type"))
            try:
                res = [n for n in (it.call_function(xb, [o], {"survey": stub.obj()}, None, xb.node) or []) if n is not None]
                v = res[0].attrs.get(attr) if res else None
                inner = v.attrs.get("src") if isinstance(v, Sym) else v
            except Raised as e:
                inner = f"raises {e.exc_name}"
            if attr in spec.CONVERTIBLE:
                want = "true()" if word in spec.TRUE_SPELLINGS + ["true()"] else "false()"
            else:
                want = word
            if inner != want:
                bad.append(f"{word!r} -> {inner!r} (expected {want!r})")
        rule.check(not bad, f"truth words in bind.{attr}", "yes/no/true/false spellings are normalised in the convertible attributes and only there", xb.loc(), why_fail="; ".join(bad[:3]))


def run(ctx):
    repo = ctx.repo
    rules = []

    # ------------------------------------------------------------------ R1
    r1 = Rule("C05", "C05.R1", "logic column aliases target the prescribed bind attribute", floor=15,
              necessary="an alias mapped to another attribute attaches the cell to the wrong bind attribute for every form using that spelling")
    sh = ctx.consts.get("pyxform.aliases", "survey_header", "C05.R1")
    for col, attr in sorted(spec.LOGIC_COLUMNS.items()):
        r1.check(sh.get(col) == ("bind", attr), f"survey_header[{col!r}]", f"-> (bind, {attr})", "pyxform/aliases.py", why_fail=f"got {sh.get(col)!r}")
    for col, attr in sorted(spec.CONTROL_COLUMNS.items()):
        r1.check(sh.get(col) == ("control", attr), f"survey_header[{col!r}]", f"-> (control, {attr})", "pyxform/aliases.py", why_fail=f"got {sh.get(col)!r}")
    for col, attr in sorted(spec.MEDIA_COLUMNS.items()):
        r1.check(sh.get(col) == ("media", attr), f"survey_header[{col!r}]", f"-> (media, {attr})", "pyxform/aliases.py", why_fail=f"got {sh.get(col)!r}")
    # no two different targets share a bind attribute by accident: inverse map is the documented one
    inv = {}
    for col, tgt in sh.items():
        if isinstance(tgt, tuple) and tgt[0] == "bind":
            inv.setdefault(tgt[1], set()).add(col)
    want_inv = {}
    for col, attr in spec.LOGIC_COLUMNS.items():
        want_inv.setdefault(attr, set()).add(col)
    # extra spellings for a bind attribute are additive; a documented column must never be *missing* from its attribute
    lost = {a: sorted(cols - inv.get(a, set())) for a, cols in want_inv.items() if cols - inv.get(a, set())}
    r1.check(not lost, "survey_header:bind targets", "every documented column spelling reaches its bind attribute", "pyxform/aliases.py", why_fail=f"missing {lost}")
    # logic columns written in the legacy single-colon spelling (namespaced attribute after `bind:`), blanks allowed
    ph_ = ctx.func("pyxform.parsing.sheet_headers:process_header", "C05.R1")
    sh_ = ctx.consts.get("pyxform.aliases", "survey_header", "C05.R1")
    cols_ = set(ctx.consts.get("pyxform.question", "SELECT_QUESTION_FIELDS", "C05.R1"))
    for header_, dbl_, want_ in (("bind:jr:constraintMsg", False, ("bind", "jr:constraintMsg")), ("bind : jr:constraintMsg", False, ("bind", "jr:constraintMsg")),
                                 ("bind: jr:requiredMsg", False, ("bind", "jr:requiredMsg")), ("bind:relevant", False, ("bind", "relevant")), ("bind : required", False, ("bind", "required")),
                                 ("bind::jr:constraintMsg", True, ("bind", "jr:constraintMsg")), ("bind :: relevant", True, ("bind", "relevant")), ("Relevant", False, ("bind", "relevant")),
                                 ("Constraint Message", False, ("bind", "jr:constraintMsg")), ("required_message : fr", False, ("bind", "jr:requiredMsg", "fr"))):
        ith_ = ctx.interp("C05.R1")
        ith_.reset([])
        try:
            got_ = ith_.call_function(ph_, [], {"header": header_, "use_double_colon": dbl_, "header_aliases": sh_, "header_columns": cols_}, None, ph_.node)
            toks_ = got_[1] if isinstance(got_, tuple) and len(got_) == 2 else got_
        except Raised as e:
            toks_ = f"raises {e.exc_name}"
        r1.check(toks_ == want_, f"process_header[{header_!r}]", f"-> bind attribute path {want_}", ph_.loc(), why_fail=repr(toks_))
    rules.append(r1)

    # ------------------------------------------------------------------ R2
    r2 = Rule("C05", "C05.R2", "bind emission is a key-preserving map onto one bind at the row's own node", floor=12,
              necessary="a dropped, duplicated, renamed or foreign attribute changes the form's logic for that row")
    se = repo.cls("pyxform.survey_element:SurveyElement")
    xb = se.methods["xml_bindings"]
    cases = {
        "plain logic": {"relevant": "${a} > 1", "required": "yes", "readonly": "TRUE", "constraint": ". > 0 and . < ${b}", "calculate": "${a} + 1", "type": "int"},
        "messages": {"type": "string", "jr:constraintMsg": "Too small", "jr:requiredMsg": "Needed because ${a}", "jr:noAppErrorString": "no app"},
        "messages with references": {"type": "string", "jr:constraintMsg": "Too small for ${a}", "jr:requiredMsg": "Needed because ${a}", "jr:noAppErrorString": "no app for ${a}"},
        "translated messages": {"type": "string", "jr:constraintMsg": {"en": "Too small", "fr": "Trop petit"}, "jr:requiredMsg": {"en": "R"}, "jr:noAppErrorString": {"en": "n"}},
        "custom and parameters": {"type": "binary", "orx:max-pixels": "640", "odk:quality": "low", "entities:saveto": "prop", "foo": "bar", "required": "no", "relevant": "false"},
    }
    for cname, bind in cases.items():
        for trig in (None, "${t}"):
            stub = SurveyStub()
            it = ctx.interp("C05.R2", hooks=base_hooks(stub))
            it.reset([])
            attrs = {"bind": dict(bind), "name": "q1", "flat": None}
            attrs["trigger"] = trig
            o = Obj(se, attrs, name="q1", slots=("name", "label", "bind", "trigger", "flat", "type"))
            try:
                res = it.call_function(xb, [o], {"survey": stub.obj()}, None, xb.node)
            except Raised as r:
                r2.fail(f"xml_bindings[{cname}, trigger={'set' if trig else 'unset'}]", f"evaluates without raising ({r.exc_name}{r.exc_args})", xb.loc())
                continue
            nodes = [n for n in (res or []) if n is not None]
            desc = f"xml_bindings[{cname}, trigger={'set' if trig else 'unset'}]"
            ok = len(nodes) == 1 and isinstance(nodes[0], NodeVal) and nodes[0].tag == "bind"
            r2.check(ok, desc + ":one bind", "exactly one bind element", xb.loc(), why_fail=repr(nodes)[:200])
            if not ok:
                continue
            b = nodes[0]
            ns = b.attrs.get("nodeset")
            r2.check(isinstance(ns, Sym) and "XPATH" in ns.tags and ns.attrs.get("of") is o, desc + ":nodeset", "nodeset is the row's own xpath", xb.loc())
            exp_keys = [k for k in bind if not (trig and k == "calculate")]
            got_keys = [k for k in b.attrs if k != "nodeset"]
            r2.check(got_keys == exp_keys, desc + ":keys", f"attributes are exactly the row's bind keys, in order{' (calculate omitted under trigger)' if trig else ''}", xb.loc(),
                     why_fail=f"got {got_keys} expected {exp_keys}")
            for k in exp_keys:
                v, src = b.attrs.get(k), bind[k]
                if not (isinstance(v, Sym) and "SUBST" in v.tags and v.attrs.get("context") is o):
                    r2.fail(desc + f":{k}", "value passes the substituter with the row as context", xb.loc(), why_fail=repr(v))
                    continue
                inner = v.attrs.get("src")
                if k in spec.CONVERTIBLE and src in spec.TRUE_SPELLINGS + spec.FALSE_SPELLINGS:
                    want = "true()" if src in spec.TRUE_SPELLINGS else "false()"
                    r2.check(inner == want, desc + f":{k}", f"{src!r} is normalised to {want}", xb.loc(), why_fail=f"got {inner!r}")
                elif k in ("jr:constraintMsg", "jr:requiredMsg", "jr:noAppErrorString") and (isinstance(src, dict) or (k != "jr:noAppErrorString" and "${" in src)):
                    okm = isinstance(inner, SymStr) and inner.text().startswith("jr:itext('") and inner.text().endswith(f":{k}')") and len(inner.syms()) == 1 \
                        and "XPATH" in inner.syms()[0].tags and inner.syms()[0].attrs.get("of") is o
                    r2.check(okm, desc + f":{k}", "translated / reference-bearing message is redirected to this row's itext id", xb.loc(), why_fail=repr(inner))
                else:
                    r2.check(inner is src or inner == src, desc + f":{k}", "cell text reaches the bind unchanged (before substitution)", xb.loc(), why_fail=f"got {inner!r}")
    # rows without bind, and flat groups, emit none
    for desc, attrs in (("no bind", {"bind": None, "flat": None}), ("flat group", {"bind": {"relevant": "x"}, "flat": True})):
        stub = SurveyStub()
        it = ctx.interp("C05.R2", hooks=base_hooks(stub))
        it.reset([])
        o = Obj(se, {**attrs, "trigger": None, "name": "g"}, name="g", slots=("name", "bind", "flat", "trigger"))
        res = it.call_function(xb, [o], {"survey": stub.obj()}, None, xb.node)
        r2.check(not [n for n in (res or []) if n is not None], f"xml_bindings[{desc}]", "no bind is emitted", xb.loc())
    rules.append(r2)

    # ------------------------------------------------------------------ R3
    r3 = Rule("C05", "C05.R3", "truth-value conversion tables", floor=14,
              necessary="a wrong polarity or a missing spelling changes required/readonly/relevant for every form using it")
    bc = ctx.consts.get("pyxform.aliases", "BINDING_CONVERSIONS", "C05.R3")
    yn = ctx.consts.get("pyxform.aliases", "yes_no", "C05.R3")
    for s in spec.TRUE_SPELLINGS:
        r3.check(bc.get(s) == "true()" and yn.get(s) is True, f"truth {s!r}", "-> true() and True", "pyxform/aliases.py", why_fail=f"{bc.get(s)!r}/{yn.get(s)!r}")
    for s in spec.FALSE_SPELLINGS:
        r3.check(bc.get(s) == "false()" and yn.get(s) is False, f"truth {s!r}", "-> false() and False", "pyxform/aliases.py", why_fail=f"{bc.get(s)!r}/{yn.get(s)!r}")
    extra_bc = {k: v for k, v in bc.items() if k not in spec.TRUE_SPELLINGS + spec.FALSE_SPELLINGS}
    r3.check(all(v in ("true()", "false()") and yn.get(k, v == "true()") is (v == "true()") and re.fullmatch(r"[A-Za-z]+(\(\))?", k or "") for k, v in extra_bc.items()),
             "BINDING_CONVERSIONS:keys", "any extra converted spelling is a bare truth word with the same polarity in both tables (an expression such as 'no' + x is left alone)",
             "pyxform/aliases.py", why_fail=f"{extra_bc}")
    r3.check(yn.get("true()") is True and yn.get("false()") is False, "yes_no:xpath booleans", "true()/false() are understood as settings values", "pyxform/aliases.py")
    conv = ctx.consts.get("pyxform.constants", "CONVERTIBLE_BIND_ATTRIBUTES", "C05.R3")
    r3.check(set(conv) == spec.CONVERTIBLE, "CONVERTIBLE_BIND_ATTRIBUTES", f"== {sorted(spec.CONVERTIBLE)}", "pyxform/constants.py", why_fail=f"got {sorted(conv)}")
    truth_conversion_eval(ctx, r3, "C05.R3")
    rules.append(r3)

    # ------------------------------------------------------------------ R4
    r4 = Rule("C05", "C05.R4", "type-table defaults are copied before row values are merged (no write reaches the shared table)", floor=3,
              necessary="merging a row's bind into the shared default dict leaks one row's logic into every later row of that type")
    qi = ctx.func("pyxform.question:Question.__init__", "C05.R4")
    tainted = {"qtd"}
    changed = True
    copies = set()
    while changed:
        changed = False
        for x in walk_own(qi.node):
            tg = val = None
            if isinstance(x, ast.Assign) and len(x.targets) == 1:
                tg, val = x.targets[0], x.value
            elif isinstance(x, ast.AnnAssign) and x.value is not None:
                tg, val = x.target, x.value
            if tg is not None:
                tname = norm(tg)
                src_names = {norm(n) for n in ast.walk(val) if isinstance(n, ast.Name | ast.Attribute)}
                is_copy = isinstance(val, ast.Call) and call_name(val) in ("copy", "deepcopy", "dict")
                if src_names & tainted and tname not in tainted:
                    if is_copy:
                        copies.add(tname)
                    else:
                        tainted.add(tname)
                        changed = True
            if isinstance(x, ast.For) and isinstance(x.iter, ast.Call) and call_name(x.iter) in ("items", "values") and norm(x.iter.func.value) in tainted:
                for n in ast.walk(x.target):
                    if isinstance(n, ast.Name) and n.id not in tainted:
                        tainted.add(n.id)
                        changed = True
    # (which local is an alias and which a copy is an implementation detail: the decision is the evaluated merge below -
    #  the row's value replaces the default, the other defaults stay, the next question starts from pristine defaults and
    #  the shared table comes out unchanged.  Only direct stores through a recognised alias are reported structurally.)
    bad = []
    for kind, tgt, node in writes_in(qi.node):
        if kind == "augname":
            continue
        base = tgt
        while isinstance(base, ast.Subscript):
            base = base.value
        if norm(base) in tainted and norm(base) not in copies and kind == "store" and isinstance(tgt, ast.Subscript) and not norm(tgt).startswith("self."):
            bad.append(node)
    r4.check(not bad, "Question.__init__:writes", "no subscript store goes through an alias of the shared type table", qi.loc(),
             why_fail=f"{[norm(b_)[:50] for b_ in bad]}")
    # the merge itself, for every type of the table and every key its defaults define: a value written on the row
    # REPLACES the default of that key (it is not combined with it), untouched defaults stay, the table is not written
    from ..interp import ClassVal as _CV
    import copy as _copy
    qtd_all = ctx.consts.get("pyxform.question_type_dictionary", "QUESTION_TYPE_DICT", "C05.R4")
    snapshot = _copy.deepcopy(qtd_all)
    qcls_ = repo.cls("pyxform.question:InputQuestion")
    n_merge = 0
    bad_merge = []
    for typ, entry in snapshot.items():
        for sect, dflt in entry.items():
            if not isinstance(dflt, dict) or sect not in ("bind", "control"):
                continue
            for key in dflt:
                itq = ctx.interp("C05.R4", hooks={"fnname:validate": lambda i, a, k, n: None})
                itq.reset([])
                own = f"ROW<{key}>"
                try:
                    q_ = itq.call(_CV(qcls_), [], {"name": "q", "type": typ, "label": "L", sect: {key: own, "extra": "E"}}, None)
                except Raised as e:
                    bad_merge.append((typ, sect, key, f"raises {e.exc_name}"))
                    continue
                n_merge += 1
                got = (q_.attrs.get(sect) or {})
                want = {**dflt, key: own, "extra": "E"}
                if got != want:
                    bad_merge.append((typ, sect, key, f"{got} != {want}"))
                # the next question of the same type (same evaluator state, i.e. same process) starts from the pristine defaults
                try:
                    q2_ = itq.call(_CV(qcls_), [], {"name": "q2", "type": typ, "label": "L"}, None)
                    got2_ = (q2_.attrs.get(sect) or {})
                    if got2_ != dflt:
                        bad_merge.append((typ, sect, key, f"the next `{typ}` question got {got2_}, the table says {dflt}: the first row's values leaked into the shared table"))
                    if got2_ is got:
                        bad_merge.append((typ, sect, key, "two questions share one dict object"))
                except Raised as e:
                    bad_merge.append((typ, sect, key, f"second construction raises {e.exc_name}"))
    r4.check(not bad_merge and n_merge >= 100, "Question.__init__[every type x default key overridden]", f"{n_merge} merges: the row's value replaces the type default of the same key, other defaults stay",
             qi.loc(), why_fail="; ".join(f"{t}.{s_}.{k}: {w}" for t, s_, k, w in bad_merge[:3]))
    # the bind attributes a type contributes by itself (metadata preloads) are the documented ones
    for typ, (btype, preload, pparams) in sorted(spec.PRELOAD_SPEC.items()):
        b = (snapshot.get(typ) or {}).get("bind") or {}
        r4.check((b.get("type"), b.get("jr:preload"), b.get("jr:preloadParams")) == (btype, preload, pparams), f"type default bind[{typ!r}]",
                 f"type={btype} jr:preload={preload} jr:preloadParams={pparams}", "pyxform/question_type_dictionary.py", why_fail=f"table has {b}")
    r4.check(qtd_all == snapshot, "QUESTION_TYPE_DICT unchanged by construction", "building questions writes nothing into the shared type table", qi.loc())
    rules.append(r4)

    # ------------------------------------------------------------------ R5
    r5 = Rule("C05", "C05.R5", "parameter -> bind attribute wiring", floor=9,
              necessary="a parameter written under another bind attribute is ignored by clients")
    w2j = ctx.func("pyxform.xls2json:workbook_to_json", "C05.R5")
    loop = _row_loop(w2j)
    got2, _sites = param_wiring(ctx, [w2j], loop)
    got = {cp: k for cp, (sct, k) in got2.items() if sct == "bind"}
    for (c, p), (s, k) in sorted(spec.PARAM_WIRING.items()):
        if s == "bind":
            r5.check(got.get((c, p)) == k, f"bind wiring {c}:{p}", f"-> bind/@{k}", w2j.loc(), why_fail=f"got {got.get((c, p))}")
    pr = ctx.func("pyxform.xls2json:process_range_question_type", "C05.R5")
    # every subset / order / typing of the three range parameters: decimal as soon as one is fractional, and the
    # control receives start, end, step with the documented defaults
    import itertools as _it
    from ..interp import Raised as _Raised
    n_rng = 0
    bad_rng = []
    for k in range(4):
        for names in _it.permutations(("start", "end", "step"), k):
            for typing in _it.product(("int", "dec"), repeat=k):
                params = {n: ({"start": "2", "end": "9", "step": "3"}[n] if t == "int" else {"start": "0.5", "end": "9.5", "step": "1.5"}[n]) for n, t in zip(names, typing)}
                it = ctx.interp("C05.R5", hooks={"fnname:validate": lambda i, a, k_, n_: (k_.get("parameters") if "parameters" in k_ else a[0])})
                it.reset([])
                try:
                    out = it.call_function(pr, [], {"row": {"type": "range", "name": "r"}, "parameters": dict(params)}, None, pr.node)
                except _Raised as e:
                    bad_rng.append((params, f"raises {e.exc_name}"))
                    continue
                n_rng += 1
                want_type = "decimal" if "dec" in typing else None
                got_type = (out.get("bind") or {}).get("type") if isinstance(out, dict) else "?"
                got_params = out.get("parameters") if isinstance(out, dict) else None
                want_params = {**{"start": "1", "end": "10", "step": "1"}, **params}
                if got_type != want_type or got_params != want_params:
                    bad_rng.append((params, f"bind type {got_type!r} (expected {want_type!r}), parameters {got_params}"))
    r5.check(not bad_rng and n_rng >= 70, "range[all parameter subsets, orders, typings]",
             "bind type is decimal iff some parameter is fractional (else the table's int); start/end/step default to 1/10/1", pr.loc(),
             why_fail="; ".join(f"{p} -> {w}" for p, w in bad_rng[:3]))
    from ..rowloop import type_branch_obligations
    type_branch_obligations(ctx, r5, "C05.R5")
    rules.append(r5)
    from .c13 import COLUMN_SETS, column_order_rule
    rules.append(column_order_rule(ctx, "C05", "C05.R6", {k: v for k, v in COLUMN_SETS.items() if "message" in k or "bind::" in k}))
    rules.append(no_cell_deleted_rule(ctx, "C05", "C05.R7"))
    # the or_other block of the row loop, evaluated for select rows with and without logic cells (shared with C09.R6)
    from . import c09 as _c09o
    from .c08 import _take as _take_o
    r_oo = Rule("C05", "C05.R7", "a generated companion question carries none of the select row's logic cells", floor=6,
                necessary="logic cells duplicated onto the generated <name>_other question give it a bind the author never wrote")
    _take_o(r_oo, ctx.other(_c09o), "C09.R6", lambda c: c.startswith("or_other["))
    rules.append(r_oo)
    return rules


# deleting writes on dict-like data between the header grouping and the JSON form; each entry confirmed by reading
ACCEPTED_DELETIONS = {
    ("workbook_to_json", "disabled"): "the deprecated disabled column is consumed by the loop (the row is skipped or kept whole)",
    ("workbook_to_json", "hint"): "table-list: the group's hint moves to the generated note (C04.R1 evaluates the move)",
    ("workbook_to_json", "label"): "table-list: the group's label moves to the generated note (C04.R1 evaluates the move)",
    ("workbook_to_json", "id_string"): "settings: duplicate id header (recorded under C14.R7)",
    ("group_dictionaries_by_key", "<key>"): "choices / osm rows: the list_name cell becomes the grouping key",
    ("validate_and_clean_choices", "__row"): "choices: internal row-number bookkeeping key",
    ("validate_and_clean_choices", "<invalid_header>"): "choices: extra column with an invalid header is dropped with a warning (C01.R2 evaluates it)",
}


def no_cell_deleted_rule(ctx, prop, rid):
    """Between the header grouping and the JSON form, a cell the author wrote is never removed from its row: every
    deleting write (`d.pop(k)`, `del d[k]`, `d.clear()`, `d.popitem()`) in workbook_to_json and the functions it calls
    is either in the accepted table or a violation.  (A validator that *reads* a cell with pop() silently drops it:
    the logic never reaches the bind.)"""
    from ..callgraph import CallGraph
    from ..effects import writes_in
    r = Rule(prop, rid, "no cell is deleted from a row on its way to the JSON form", floor=5,
             necessary="a logic cell removed from the row dict never becomes a bind attribute")
    repo = ctx.repo
    cg = CallGraph(repo, ctx.consts.interp)
    reach = cg.reachable(["pyxform.xls2json:workbook_to_json"])
    elem_init = {f.fq for f in repo.all_functions() if f.name == "__init__"}
    n = 0
    for fi in repo.all_functions():
        if fi.fq not in reach or fi.fq in elem_init:
            continue
        for kind, tgt, node in writes_in(fi.node):
            if kind == "del":
                meth, key = "del", norm(tgt.slice) if isinstance(tgt, ast.Subscript) else norm(tgt)
            elif kind == "mutator" and node.func.attr in ("pop", "popitem", "clear"):
                if node.func.attr == "pop" and not node.args:
                    continue  # list.pop(): stack discipline, not a cell
                meth, key = node.func.attr, (norm(node.args[0]) if node.args else "")
            else:
                continue
            n += 1
            kn = node.args[0] if kind == "mutator" and node.args else (tgt.slice if isinstance(tgt, ast.Subscript) else None)
            okc, kv = const_str(ctx, fi.module, kn) if kn is not None else (False, None)
            key = kv if okc and isinstance(kv, str) else f"<{key}>"
            acc = ACCEPTED_DELETIONS.get((fi.name, key))
            r.check(acc is not None, f"{fi.qualname}:{meth} {key} on {norm(tgt)[:40]}", f"accepted: {acc}" if acc else "deleting write is in the accepted table", fi.loc(node),
                    why_fail=f"`{norm(node)[:70]}` removes an entry from row / sheet data on the conversion path; nothing downstream sees that cell")
    r.check(n >= 5, "deleting writes census", f"{n} deleting writes examined in functions reachable from workbook_to_json", "pyxform/xls2json.py")
    return r
