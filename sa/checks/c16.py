"""C16 — the JSON intermediate form is a faithful, reloadable representation (structural clauses)."""

from __future__ import annotations

import ast

from ..astutil import call_name, const_str
from ..callgraph import CallGraph
from ..effects import root_name, writes_in
from ..interp import ClassVal, Obj, Raised, Sym
from ..loader import AnalysisError, norm, walk_own
from ..report import Rule
from .c02 import _slots
from .c07 import _mk

EXPLANATION = (
    "Per element class: X = the slots read by any XML-generating method that can run on an instance (own / inherited "
    "xml_*, build_xml, get_translations, … and the Survey methods that read the class's instances), computed from the "
    "ASTs; D = what the class's to_json_dict chain keeps, obtained by abstract evaluation of to_json_dict on an "
    "instance with every slot set to a distinct value.  Required: X is contained in the dump (with the same values) "
    "or in the explicit table of derivable slots; every dumped key is a constructor field of the class the builder "
    "will instantiate; constructor defaults are falsy (so dropping falsy values is lossless); nothing non-JSON is "
    "stored under the JSON root; slots written during XML generation and later dumped are written value-preservingly."
)
NOT_DECIDED = "byte equality of regenerated XForms (value-level); that json.dumps/loads round-trips the values (stdlib)"
ASSUMPTIONS = ["XML-generating methods are those named xml*, build_xml, _build_xml, nest_set_nodes, get_translations, needs_itext_ref, get_setvalue_node_for_dynamic_default, iter_descendants, validate",
               "the evaluator's model of dict/generator/chain semantics"]

XML_METHODS_PREFIX = ("xml", "build_xml", "_build_xml", "nest_set_nodes", "get_translations", "needs_itext_ref", "get_setvalue_node_for_dynamic_default",
                      "_dynamic_defaults_helper", "generate_repeating_template", "template_instance", "iter_descendants", "validate", "_validate")
DERIVABLE = {"parent": "re-linked by the builder (add_child)", "_survey_element_xpath": "cache", "_qtd_defaults": "re-derived from type", "_qtd_kwargs": "restored into bind/control by the dump itself",
             "_translations": "recomputed", "_xpath": "recomputed", "_created": "timestamp", "_choice_itext_ref": "recomputed by the search redirect",
             "children": "dumped recursively", "setvalues_by_triggering_ref": "rebuilt by the builder from the rows' trigger cells",
             "setgeopoint_by_triggering_ref": "rebuilt by the builder from the rows' trigger cells", "choices": "dumped recursively (survey) / under children (selects)", "name": "always kept"}


def _xml_reads(ctx, ci, slots) -> dict[str, str]:
    """slot -> method that reads it during XML generation."""
    it0 = ctx.consts.interp
    out = {}
    for c in it0.mro(ci):
        for mname, m in c.methods.items():
            if not mname.startswith(XML_METHODS_PREFIX):
                continue
            for n in walk_own(m.node):
                if isinstance(n, ast.Attribute) and isinstance(n.value, ast.Name) and n.value.id == "self" and n.attr in slots and isinstance(n.ctx, ast.Load):
                    out.setdefault(n.attr, f"{c.name}.{mname}")
                if isinstance(n, ast.Subscript) and isinstance(n.value, ast.Name) and n.value.id == "self":
                    ok, k = const_str(ctx, m.module, n.slice)
                    if ok and k in slots:
                        out.setdefault(k, f"{c.name}.{mname}")
                if isinstance(n, ast.Call) and call_name(n) in ("hasattr", "getattr", "get") and len(n.args) >= 1:
                    for a in n.args:
                        ok, k = const_str(ctx, m.module, a)
                        if ok and isinstance(k, str) and k in slots and (norm(n.args[0]) == "self" or norm(getattr(n.func, "value", n.func)) == "self"):
                            out.setdefault(k, f"{c.name}.{mname}")
    return out


def _foreign_reads(ctx, varnames: tuple[str, ...], slots) -> dict[str, str]:
    """Slots of a class read by Survey / other classes' XML methods through a variable (choice.extra_data, …)."""
    out = {}
    for fi in ctx.repo.all_functions():
        owner = fi
        while owner.cls is None and owner.parent is not None:
            owner = owner.parent
        if owner.cls is None or not owner.name.startswith(XML_METHODS_PREFIX + ("_generate", "_setup", "_redirect", "itext")):
            continue
        for n in walk_own(fi.node):
            if isinstance(n, ast.Attribute) and isinstance(n.value, ast.Name) and n.value.id in varnames and n.attr in slots and isinstance(n.ctx, ast.Load):
                out.setdefault(n.attr, fi.qualname)
    return out


def run(ctx):
    repo = ctx.repo
    it0 = ctx.consts.interp
    rules = []
    classes = {
        "InputQuestion": ("pyxform.question:InputQuestion", dict(type="text"), ()),
        "MultipleChoiceQuestion": ("pyxform.question:MultipleChoiceQuestion", dict(type="select one"), ("element", "i", "e")),
        "RangeQuestion": ("pyxform.question:RangeQuestion", dict(type="range"), ()),
        "UploadQuestion": ("pyxform.question:UploadQuestion", dict(type="photo"), ()),
        "GroupedSection": ("pyxform.section:GroupedSection", dict(type="group"), ()),
        "RepeatingSection": ("pyxform.section:RepeatingSection", dict(type="repeat"), ()),
        "Option": ("pyxform.question:Option", {}, ("choice", "option", "opt")),
        "ExternalInstance": ("pyxform.external_instance:ExternalInstance", dict(type="xml-external"), ()),
        "EntityDeclaration": ("pyxform.entities.entity_declaration:EntityDeclaration", dict(type="entity"), ()),
        "Survey": ("pyxform.survey:Survey", dict(type="survey"), ()),
    }

    r1 = Rule("C16", "C16.R1", "everything XML generation reads from an element survives its JSON dump", floor=40,
              necessary="a slot read by xml_* but dropped by to_json_dict is lost on dump -> load, so the reloaded survey generates a different XForm")
    r2 = Rule("C16", "C16.R2", "every dumped key is a constructor field of the class that will be rebuilt", floor=8,
              necessary="a dumped key the constructor does not know lands in extra_data and changes meaning on reload")
    qtd = ctx.consts.get("pyxform.question_type_dictionary", "QUESTION_TYPE_DICT", "C16")
    for cname, (fq, fixed, foreign_vars) in classes.items():
        ci = repo.cls(fq)
        slots = list(_slots(ctx, ci))
        reads = _xml_reads(ctx, ci, set(slots))
        if foreign_vars:
            for k, v in _foreign_reads(ctx, foreign_vars, set(slots)).items():
                reads.setdefault(k, v)
        # instance with a distinct value in every slot
        vals = {}
        for s in slots:
            if s in ("parent",):
                vals[s] = Obj(None, {}, name="PARENT")
            elif s in ("children", "choices"):
                vals[s] = None
            elif s in ("bind", "control", "instance", "media", "parameters", "extra_data", "attribute", "action"):
                vals[s] = {f"k_{s}": f"v_{s}"}
            elif s == "_qtd_defaults":
                vals[s] = qtd.get(fixed.get("type"), {}) if cname != "Survey" else None
            elif s in ("_qtd_kwargs", "_translations", "_xpath", "_created", "_survey_element_xpath", "_choice_itext_ref"):
                vals[s] = None
            elif s in ("flat", "add_none_option", "clean_text_values", "omit_instanceID", "allow_choice_duplicates", "sms_allow_media"):
                vals[s] = True
            elif s in ("setgeopoint_by_triggering_ref", "setvalues_by_triggering_ref"):
                vals[s] = {}
            elif s == "entity_features":
                vals[s] = ["create"]
            else:
                vals[s] = f"VAL_{s}"
        vals.update(fixed)
        # the type table's defaults are merged into bind/control by the constructor: reflect that
        if cname not in ("Survey", "Option", "GroupedSection", "RepeatingSection", "ExternalInstance", "EntityDeclaration"):
            for sect, dv in (qtd.get(fixed["type"]) or {}).items():
                if isinstance(dv, dict):
                    vals[sect] = {**dv, **vals.get(sect, {})}
                    vals["_qtd_kwargs"] = {**(vals["_qtd_kwargs"] or {}), sect: {f"k_{sect}": f"v_{sect}"}}
        obj = Obj(ci, vals, name=cname.lower(), slots=tuple(slots))
        tj = next((c.methods["to_json_dict"] for c in it0.mro(ci) if "to_json_dict" in c.methods), None)
        it = ctx.interp("C16.R1", hooks={"fnname:validate": lambda i, a, k, n: None})
        it.reset([])
        try:
            dump = it.call_function(tj, [obj], {}, None, tj.node)
        except Raised as r:
            r1.fail(f"{cname}.to_json_dict", f"evaluates ({r.exc_name}{r.exc_args})", tj.loc())
            continue
        if not isinstance(dump, dict):
            r1.fail(f"{cname}.to_json_dict", "the dump is a dict computed from the element's current fields", tj.loc(),
                    why_fail=f"with every field set, the method returned {dump!r} - a stored value is handed out instead of a dump of the current state")
            continue
        for slot, reader in sorted(reads.items()):
            if slot in DERIVABLE:
                continue
            key = f"{cname}.{slot}"
            present = slot in dump
            same = present and (dump[slot] == vals[slot] or (isinstance(vals[slot], dict) and isinstance(dump[slot], dict) and all(dump[slot].get(k) == v for k, v in vals[slot].items() if k.startswith("k_"))))
            if cname in ("GroupedSection", "RepeatingSection") and slot == "type":
                same = present  # the dump normalises the group type by design
            r1.check(same, key, f"read by {reader} and kept (same value) by the dump", tj.loc(), why_fail="dropped by to_json_dict" if not present else f"value changed: {dump[slot]!r}")
        extra_keys = sorted(k for k in dump if k not in slots and k not in ("children", "choices"))
        r2.check(not extra_keys, f"{cname}:dumped keys", "every dumped key is a slot (constructor field) of the class", tj.loc(), why_fail=repr(extra_keys))
    # selects dump their choices under children; the builder reads that back
    bq = ctx.func("pyxform.builder:SurveyElementBuilder._create_question_from_dict", "C16.R2")
    def _reads_choices_then_children(fn):
        # `<d>.get(CHOICES, <d>.get(CHILDREN))`, whatever the dict is called
        for c in walk_own(fn.node):
            if isinstance(c, ast.Call) and call_name(c) == "get" and len(c.args) == 2 and const_str(ctx, fn.module, c.args[0]) == (True, "choices"):
                inner = c.args[1]
                if isinstance(inner, ast.Call) and call_name(inner) == "get" and inner.args and const_str(ctx, fn.module, inner.args[0]) == (True, "children") \
                        and norm(inner.func.value) == norm(c.func.value):
                    return True
        return False
    r2.check(_reads_choices_then_children(bq), "builder:choices/children", "a select's dumped 'children' are read back as its choices", bq.loc())
    # a select's options are dumped under 'children' (evaluated on a select with two options)
    mq = repo.cls("pyxform.question:MultipleChoiceQuestion")
    ocls = repo.cls("pyxform.question:Option")
    icls = repo.cls("pyxform.question:Itemset")
    oslots = tuple(_slots(ctx, ocls))
    o1 = Obj(ocls, {**{s_: None for s_ in oslots}, "name": "a", "label": "A"}, name="opt_a", slots=oslots)
    o2 = Obj(ocls, {**{s_: None for s_ in oslots}, "name": "b", "label": "B"}, name="opt_b", slots=oslots)
    its = Obj(icls, {"name": "l", "options": (o1, o2), "requires_itext": False, "used_by_search": False}, name="itemset")
    mslots = tuple(_slots(ctx, mq))
    sel = Obj(mq, {**{s_: None for s_ in mslots}, "name": "s", "type": "select one", "label": "S", "itemset": "l", "list_name": "l", "choices": its,
                   "bind": {"type": "string"}, "control": {"tag": "select1"}}, name="select", slots=mslots)
    tjs = next((c.methods["to_json_dict"] for c in it0.mro(mq) if "to_json_dict" in c.methods), None)
    it = ctx.interp("C16.R2", hooks={"fnname:validate": lambda i, a, k, n: None})
    it.reset([])
    try:
        sd = it.call_function(tjs, [sel], {}, None, tjs.node)
    except Raised as r:
        sd = r
    kids = sd.get("children") if isinstance(sd, dict) else None
    r2.check(isinstance(kids, list) and [k.get("name") for k in kids if isinstance(k, dict)] == ["a", "b"] and all(k.get("label") in ("A", "B") for k in kids)
             and not any(isinstance(k.get("parent"), Obj) for k in kids),
             "to_json_dict:select choices", "a select's options are dumped under 'children', in order, with name and label and without the parent link", tjs.loc(),
             why_fail=f"{sd!r}"[:200])
    # type dispatch: dumped type strings are keys the builder dispatches on
    cf = ctx.func("pyxform.builder:SurveyElementBuilder.create_survey_element_from_dict", "C16.R2")
    bcls_d = repo.cls("pyxform.builder:SurveyElementBuilder")
    for typ, want_maker in (("group", "section"), ("repeat", "section"), ("survey", "section"), ("loop", "loop"), ("xml-external", "ExternalInstance"), ("csv-external", "ExternalInstance"),
                            ("entity", "EntityDeclaration"), ("text", "question"), ("select one", "question"), ("calculate", "question")):
        made = []
        hooks_d = {"fnname:_create_section_from_dict": lambda i, a, k, n: (made.append("section"), Obj(None, {"setvalues_by_triggering_ref": {}, "setgeopoint_by_triggering_ref": {}}, name="sec"))[1],
                   "fnname:_create_loop_from_dict": lambda i, a, k, n: made.append("loop"), "fnname:_create_question_from_dict": lambda i, a, k, n: made.append("question"),
                   "fnname:_save_trigger": lambda i, a, k, n: None,
                   "new:ExternalInstance": lambda i, a, k, n: made.append("ExternalInstance"), "new:EntityDeclaration": lambda i, a, k, n: made.append("EntityDeclaration")}
        itd = ctx.interp("C16.R2", hooks=hooks_d)
        itd.reset([])
        bobj = Obj(bcls_d, {"setvalues_by_triggering_ref": {}, "setgeopoint_by_triggering_ref": {}, "_add_none_option": False, "_sections": {}}, name="builder")
        try:
            itd.call_function(cf, [bobj], {"d": {"type": typ, "name": "n", "children": []}}, None, cf.node)
        except Raised as e:
            made.append(f"raises {e.exc_name}")
        r2.check(made == [want_maker], f"builder:dispatch[{typ}]", f"a dumped `{typ}` element is rebuilt by the {want_maker} maker", cf.loc(), why_fail=f"made {made}")
    rules += [r1, r2]

    # ------------------------------------------------------------------ R3
    r3 = Rule("C16", "C16.R3", "constructor defaults are falsy, so dropping falsy values from the dump is lossless", floor=40,
              necessary="a truthy default dropped as 'empty' would come back as the default and differ from an explicit falsy value")
    for ci in repo.all_classes():
        if not any(k.name == "SurveyElement" for k in it0.mro(ci)) or "__init__" not in ci.methods:
            continue
        init = ci.methods["__init__"]
        params = {a.arg for a in [*init.node.args.args, *init.node.args.kwonlyargs]}
        for x in walk_own(init.node):
            tgt = val = None
            if isinstance(x, ast.AnnAssign) and x.value is not None:
                tgt, val = x.target, x.value
            elif isinstance(x, ast.Assign) and len(x.targets) == 1:
                tgt, val = x.targets[0], x.value
            if isinstance(tgt, ast.Attribute) and isinstance(tgt.value, ast.Name) and tgt.value.id == "self" and not tgt.attr.startswith("_"):
                if isinstance(val, ast.Name) and val.id in params:
                    continue
                from ..astutil import guards_of
                if guards_of(x, stop=init.node):
                    continue  # conditional adjustment, not the slot's default
                if isinstance(val, ast.Constant | ast.Dict | ast.List | ast.Tuple):
                    ok, v = const_str(ctx, init.module, val)
                    r3.check(ok and not v, f"{ci.name}.{tgt.attr}", "default is falsy", init.loc(x), why_fail=f"default {norm(val)}")
    rules.append(r3)

    # ------------------------------------------------------------------ R4
    r4 = Rule("C16", "C16.R4", "nothing non-JSON (set / tuple / bytes / object) is stored into the JSON intermediate form", floor=5,
              necessary="json.dumps of the intermediate dict would fail or change the value's type on reload")
    w2j = ctx.func("pyxform.xls2json:workbook_to_json", "C16.R4")
    json_vars = {"json_dict", "new_json_dict", "new_dict", "row", "table_list_header", "generated_label_element", "specify_other_question", "meta_element"}
    n_st = 0
    for fn in (w2j, ctx.func("pyxform.xls2json:process_range_question_type", "C16.R4"), ctx.func("pyxform.xls2json:add_choices_info_to_question", "C16.R4"),
               ctx.func("pyxform.entities.entities_parsing:get_entity_declaration", "C16.R4")):
        for x in walk_own(fn.node):
            vals = []
            if isinstance(x, ast.Assign) and isinstance(x.targets[0], ast.Subscript) and root_name(x.targets[0]) in json_vars | {"question"}:
                vals = [x.value]
            elif isinstance(x, ast.Dict) and any(isinstance(k, ast.Constant | ast.Attribute) for k in x.keys if k is not None):
                vals = list(x.values)
            for v in vals:
                n_st += 1
                bad = isinstance(v, ast.Set | ast.SetComp | ast.Tuple | ast.GeneratorExp) or (isinstance(v, ast.Call) and isinstance(v.func, ast.Name) and v.func.id in ("set", "tuple", "frozenset", "bytes"))
                if bad:
                    r4.fail(f"{fn.fq}:{norm(x)[:50]}", "value stored in the intermediate form is JSON-serialisable (no set/tuple/bytes)", fn.loc(x))
    r4.ok("workbook_to_json:stores census", f"{n_st} stored values inspected; none is a set/tuple/bytes/generator", w2j.loc())
    ged = ctx.func("pyxform.entities.entities_parsing:get_entity_declaration", "C16.R4")
    rt = [x for x in walk_own(ged.node) if isinstance(x, ast.Return) and isinstance(x.value, ast.Dict)]
    for x in rt:
        for n in ast.walk(x.value):
            if isinstance(n, ast.Dict):
                for k in n.keys:
                    if isinstance(k, ast.Attribute) and norm(k).startswith("EC."):
                        r4.check(norm(k).endswith(".value"), f"get_entity_declaration:key {norm(k)}", "enum members are stored by .value (plain str), not as Enum objects", ged.loc(k))
    pj = ctx.func("pyxform.xls2json:print_pyobj_to_json", "C16.R4")
    r4.check("json.dump" in norm(pj.node), "print_pyobj_to_json", "the intermediate form is written with the json module", pj.loc())
    bj = ctx.func("pyxform.builder:create_survey_element_from_json", "C16.R4")
    r4.check(any(isinstance(c, ast.Call) and call_name(c) == "create_survey_element_from_dict" for c in walk_own(bj.node)), "create_survey_element_from_json", "JSON text is rebuilt through the same dict builder", bj.loc())
    rules.append(r4)

    # ------------------------------------------------------------------ R5
    r5 = Rule("C16", "C16.R5", "XML generation does not damage state that is later dumped", floor=3,
              necessary="convert() hands out the survey after generation; a slot clobbered by generation makes survey -> dump -> load fail or differ")
    cg = CallGraph(repo, it0)
    gen_reach = cg.reachable(["pyxform.survey:Survey.xml"], all_live=True) & cg.reachable(["pyxform.xls2xform:convert"])
    dumped_slots = set()
    for cname, (fq, fixed, _) in classes.items():
        dumped_slots |= {s for s in _slots(ctx, repo.cls(fq)) if not s.startswith("_") and s not in ("parent", "extra_data")}
    n_w = 0
    for fi in repo.all_functions():
        if fi.fq not in gen_reach or fi.name == "__init__":
            continue
        for kind, tgt, node in writes_in(fi.node):
            if kind not in ("store", "aug") or not isinstance(tgt, ast.Attribute) or tgt.attr not in dumped_slots:
                continue
            rn = root_name(tgt)
            if rn not in ("self", "element", "e", "item", "child", "survey", "i"):
                continue
            owner = fi
            while owner.cls is None and owner.parent is not None:
                owner = owner.parent
            if rn == "self" and not (owner.cls and any(k.name == "SurveyElement" for k in it0.mro(owner.cls))):
                continue
            n_w += 1
            key = f"{fi.fq}:{norm(node)[:60]}"
            if fi.qualname == "Survey.get_nsmap" and tgt.attr == "namespaces":
                r5.ok(key, "accepted: the appended entities declaration is idempotent for the namespace map on reload", fi.loc(node))
            elif fi.qualname == "SurveyElement.add_child":
                r5.ok(key, "structure building, not generation", fi.loc(node))
            else:
                r5.fail(key, f"slot {tgt.attr!r} is dumped by to_json_dict but overwritten during XML generation", fi.loc(node))
    r5.ok("generation writes census", f"{n_w} writes to dumped slots examined in {len(gen_reach)} generation-reachable functions", "")
    r5.ok("convert:_survey", "ConvertResult exposes the survey object after generation (so R5 matters)", "pyxform/xls2xform.py")
    rules.append(r5)
    rules.append(_question_roundtrip_rule(ctx))
    # values that went through JSON text come back as equal but DISTINCT objects: comparing a field with a string /
    # number constant by identity (`is`) holds for the directly built survey and fails for the reloaded one
    r7 = Rule("C16", "C16.R7", "no identity comparison with a string or number constant", floor=1,
              necessary="`x.type is constants.REPEAT` is true for the interned constant and false for the equal string loaded from JSON: the reloaded survey takes another branch")
    n_is = 0
    # scope: code that handles surveys built from a loaded dict (the builder and everything XML generation reaches);
    # the workbook reader runs before any JSON boundary and compares the very constants it just looked up
    from ..callgraph import CallGraph as _CG
    reload_reach = _CG(repo, it0).reachable(["pyxform.builder:create_survey_element_from_dict", "pyxform.builder:SurveyElementBuilder.create_survey_element_from_dict",
                                               "pyxform.survey:Survey.to_xml", "pyxform.survey_element:SurveyElement.to_json_dict"])
    for fi in repo.all_functions():
        if fi.fq not in reload_reach:
            continue
        for x in walk_own(fi.node):
            if isinstance(x, ast.Compare):
                for op, rhs, lhs in zip(x.ops, x.comparators, [x.left, *x.comparators[:-1]]):
                    if not isinstance(op, ast.Is | ast.IsNot):
                        continue
                    n_is += 1
                    for side in (lhs, rhs):
                        if isinstance(side, ast.Constant) and (side.value is None or isinstance(side.value, bool)):
                            break
                    else:
                        bad = None
                        for side in (lhs, rhs):
                            okc, v = const_str(ctx, fi.module, side) if isinstance(side, ast.Constant | ast.Attribute | ast.Name) and not (isinstance(side, ast.Name) and side.id in ("self", "other")) else (False, None)
                            if okc and isinstance(v, str | int | float) and not isinstance(v, bool):
                                bad = v
                        if bad is not None:
                            r7.fail(f"{fi.fq}:{norm(x)[:60]}", f"identity comparison with the constant {bad!r}", fi.loc(x))
    r7.ok("identity comparisons census", f"{n_is} `is` / `is not` comparisons examined; none compares with a string or number constant", "")
    rules.append(r7)
    # the JSON text channel itself: written in the dict's own order (pyxform derives the order of instances, itext
    # entries and translations from dict order) and read afresh on every load
    r8 = Rule("C16", "C16.R8", "JSON text is written in dict order and read afresh", floor=2,
              necessary="sorted keys reorder choices / translations after a reload; a memoised reader returns an older dump of the same path")
    for fi in repo.all_functions():
        for c in walk_own(fi.node):
            if isinstance(c, ast.Call) and norm(c.func) in ("json.dump", "json.dumps"):
                sk = next((k.value for k in c.keywords if k.arg == "sort_keys"), None)
                okc, v = const_str(ctx, fi.module, sk) if sk is not None else (True, False)
                if fi.module.name.startswith("pyxform.validators"):
                    continue  # the validator updater's own bookkeeping files
                r8.check(okc and not v, f"{fi.fq}:{norm(c)[:50]}", "keys are written in the dict's own order", fi.loc(c), why_fail=f"sort_keys={norm(sk) if sk is not None else None}")
    loaders = _CG(repo, it0).reachable(["pyxform.utils:get_pyobj_from_json", "pyxform.builder:create_survey_element_from_json"])
    for fi in repo.all_functions():
        if fi.fq in loaders and any("cache" in norm(d) for d in fi.node.decorator_list) and any(isinstance(c, ast.Call) and call_name(c) in ("open", "read_text", "load") for c in walk_own(fi.node)):
            r8.fail(f"{fi.fq}:memoised reader", "a function that reads the JSON file is memoised: a later dump written to the same path is not seen", fi.loc())
    r8.ok("JSON readers", f"{sum(1 for f in repo.all_functions() if f.fq in loaders)} functions on the load path examined; none memoises a file read", "")
    rules.append(r8)
    # to_json_dict walks get_slot_names(): every advertised name must be a real slot of the class (own or inherited),
    # else dumping an element of that class raises AttributeError
    for ci in repo.all_classes():
        gs = ci.methods.get("get_slot_names")
        if gs is None:
            continue
        it = ctx.interp("C16.R2")
        it.reset([])
        try:
            names = it.call_function(gs, [], {}, None, gs.node)
        except Raised as e:
            r2.fail(f"{ci.name}.get_slot_names", f"evaluates ({e.exc_name})", gs.loc())
            continue
        real = set()
        unknown = False
        for c_ in it0.mro(ci):
            decl = [x for x in c_.node.body if isinstance(x, ast.Assign) and any(isinstance(t, ast.Name) and t.id == "__slots__" for t in x.targets)]
            if not decl:
                continue
            okc, v = const_str(ctx, c_.module, decl[0].value)
            if okc:
                real |= set(v) if not isinstance(v, str) else {v}
            else:
                unknown = True
        if unknown or not real:
            continue  # a class without foldable __slots__ has a __dict__: any name is readable
        missing = [n for n in (names or ()) if n not in real]
        r2.check(not missing, f"{ci.name}.get_slot_names", "every advertised field is a slot of the class (to_json_dict reads each of them)", gs.loc(), why_fail=f"not slots: {missing}")
    # the dumped survey carries its trigger maps (as JSON lists); the builder re-collects them from the rows (as tuples):
    # after a reload each (target, expression) pair must be there once, not once per representation
    bcls = repo.cls("pyxform.builder:SurveyElementBuilder")
    cf = bcls.methods["create_survey_element_from_dict"]
    scls2 = repo.cls("pyxform.survey:Survey")
    for attr in ("setvalues_by_triggering_ref", "setgeopoint_by_triggering_ref"):
        loaded = {"${t}": [["c1", "1 + 1"], ["c2", "now()"]]}
        collected = {"${t}": [("c1", "1 + 1"), ("c2", "now()")]}
        sec = Obj(scls2, {"setvalues_by_triggering_ref": {}, "setgeopoint_by_triggering_ref": {}, "name": "data"}, name="rebuilt")
        sec.attrs[attr] = {k: [list(x) for x in v] for k, v in loaded.items()}
        b = Obj(bcls, {"setvalues_by_triggering_ref": {}, "setgeopoint_by_triggering_ref": {}, "_add_none_option": False}, name="builder")
        b.attrs[attr] = {k: list(v) for k, v in collected.items()}
        it = ctx.interp("C16.R2", hooks={"fnname:_create_section_from_dict": lambda i, a, k, n, sec=sec: sec})
        it.reset([])
        try:
            out = it.call_function(cf, [b], {"d": {"type": "survey", "name": "data", "children": []}}, None, cf.node)
            got = (out.attrs.get(attr) or {}).get("${t}") if isinstance(out, Obj) else None
            pairs = sorted(tuple(x) for x in (got or []))
            r2.check(pairs == [("c1", "1 + 1"), ("c2", "now()")], f"builder:reload {attr}", "a reloaded survey holds each triggered (target, expression) pair exactly once",
                     cf.loc(), why_fail=f"{got!r}")
        except Raised as e:
            r2.fail(f"builder:reload {attr}", f"evaluates ({e.exc_name}{e.exc_args})", cf.loc())
    rules.append(builder_input_rule(ctx, "C16", "C16.R9"))
    rules.append(_dump_completeness_rule(ctx))
    # the dump rewrites every GroupedSection's type to "group" (an expanded `begin loop` block keeps type "loop" in the
    # live tree): generation must not tell the two apart, or the reloaded survey renders differently
    from . import c10
    from .c08 import _take
    r11 = Rule("C16", "C16.R11", "sections whose type the dump rewrites (loop -> group) are generated alike", floor=1,
               necessary="generation code that asks for type == 'group' treats the live loop section and its reloaded dump differently")
    _take(r11, ctx.other(c10), "C10.R2", lambda c: c.startswith("repeat placement[group, nested group and expanded loop"))
    gts = repo.cls("pyxform.section:GroupedSection").methods.get("to_json_dict")
    rewrites = gts is not None and any(isinstance(x, ast.Assign) and isinstance(x.targets[0], ast.Subscript) and norm(x.targets[0].slice) in ("'type'", "constants.TYPE", "const.TYPE") for x in walk_own(gts.node))
    if rewrites:
        r11.ok("GroupedSection.to_json_dict:type", "the dump writes the section type (the rewrite this rule is about)", gts.loc())
    else:
        r11.note("GroupedSection.to_json_dict no longer rewrites the type; the placement obligation still holds on its own")
    rules.append(r11)
    # the dump file is written under the caller's path: a scratch file that is moved into place afterwards is named by
    # the tempfile API (shared with C14.R5)
    from .c18 import scratch_name_obligations
    r12 = Rule("C16", "C16.R12", "a dump is written to the caller's path or through a uniquely named scratch file", floor=0,
               necessary="two dumps sharing one scratch file name write each other's survey into the other's file")
    n_scratch = scratch_name_obligations(ctx, r12)
    jd = repo.cls("pyxform.survey_element:SurveyElement").methods.get("json_dump")
    if jd is not None:
        pj = [c for c in walk_own(jd.node) if isinstance(c, ast.Call) and call_name(c) == "print_pyobj_to_json"]
        r12.check(len(pj) == 1 and len(pj[0].args) == 2 and isinstance(pj[0].args[1], ast.Name) and pj[0].args[1].id == "path" or n_scratch > 0 and len(pj) == 1, "SurveyElement.json_dump:target",
                  "the dump is printed to the caller's path (or to a scratch file judged above)", jd.loc())
    rules.append(r12)
    # loading a dumped form by path gives back the document that was dumped: the loader adds / renames nothing
    r13 = Rule("C16", "C16.R13", "a JSON form loaded by path is the dumped document, unchanged", floor=3,
               necessary="a loader that edits the document (a root renamed after the file) changes every path of the reloaded XForm")
    lf = repo.find_func("pyxform.file_utils:load_file_to_dict")
    if lf is None:
        r13.note("pyxform.file_utils.load_file_to_dict not found")
        r13.floor = 0
    else:
        import copy as _cp
        for desc_, doc_ in (("form named by the converter's placeholder", {"type": "survey", "name": "data", "id_string": "hh", "title": "HH", "children": [{"type": "text", "name": "q"}]}),
                            ("form with its own name", {"type": "survey", "name": "census", "children": []}), ("a section that is not a survey", {"type": "group", "name": "data", "children": []})):
            for path_ in ("backup_2024.json", "dir/data.json", "census.json"):
                doc_in = _cp.deepcopy(doc_)
                itl = ctx.interp("C16.R13", hooks={"fnname:get_pyobj_from_json": lambda i, a, k, n, doc_in=doc_in: doc_in}, inline=lambda fi: True)
                itl.reset([])
                try:
                    out_ = itl.call_function(lf, [path_], {}, None, lf.node)
                    sec_ = out_[1] if isinstance(out_, tuple) and len(out_) == 2 else out_
                except Raised as e:
                    sec_ = f"raises {e.exc_name}{e.exc_args}"
                r13.check(sec_ == doc_, f"load_file_to_dict[{desc_}; {path_}]", "returns the document as it is in the file", lf.loc(), why_fail=repr(sec_)[:160])
    rules.append(r13)
    return rules


def _dump_completeness_rule(ctx):
    """The survey-level dump carries every setting the survey object holds, whatever else is set (an entity form keeps
    its namespaces, ...), and the children of every element kind - a section's list of rows as well as an osm
    question's tuple of tags."""
    repo = ctx.repo
    r = Rule("C16", "C16.R10", "the dump carries every setting and every kind of children", floor=30,
             necessary="a setting or a child left out of the dump is missing from the survey rebuilt from it")
    scls = repo.cls("pyxform.survey:Survey")
    tj = scls.methods["to_json_dict"]
    slots = tuple(_slots(ctx, scls))
    SETTINGS = {"title": "My title", "id_string": "my_id", "version": "2024", "style": "pages", "public_key": "KEY", "submission_url": "https://example.org/s", "auto_send": "true",
                "auto_delete": "false", "namespaces": 'ex="http://example.org/ex"', "instance_name": "concat(${a}, '-')", "attribute": {"ex:role": "x", "_underscored": "kept", "parent": "also kept"}, "default_language": "English (en)",
                "sms_keyword": "kw", "sms_separator": "+", "instance_xmlns": "http://example.org/x", "omit_instanceID": "yes", "add_none_option": True, "clean_text_values": "no",
                "allow_choice_duplicates": "yes", "file_name": "f.xlsx"}
    for feats in (None, ["create"], ["create", "update", "offline"]):
        attrs = {k: None for k in slots}
        attrs.update({k: v for k, v in SETTINGS.items() if k in slots})
        attrs.update({"name": "data", "type": "survey", "children": [], "entity_features": feats, "setvalues_by_triggering_ref": {}, "setgeopoint_by_triggering_ref": {}, "_translations": {}, "_xpath": None, "choices": None})
        sv = Obj(scls, attrs, name="survey", slots=slots)
        import copy as _copy
        live_before = _copy.deepcopy({k: v for k, v in attrs.items() if isinstance(v, dict | list) and k in SETTINGS})
        it = ctx.interp("C16.R10", hooks={"fnname:validate": lambda i, a, k, n: None})
        it.reset([])
        try:
            d = it.call_function(tj, [sv], {}, None, tj.node)
            live_after = {k: sv.attrs.get(k) for k in live_before}
            r.check(live_after == live_before, f"Survey.to_json_dict[entity_features={feats}]:survey untouched", "dumping leaves the survey's own nested dicts as they were", tj.loc(),
                    why_fail=f"changed: { {k: (live_before[k], live_after[k]) for k in live_before if live_after[k] != live_before[k]} }"[:250])
        except Raised as e:
            r.fail(f"Survey.to_json_dict[entity_features={feats}]", f"evaluates ({e.exc_name}{e.exc_args})", tj.loc())
            continue
        for k, v in sorted(SETTINGS.items()):
            if k not in slots:
                continue
            r.check(isinstance(d, dict) and d.get(k) == v, f"Survey.to_json_dict[entity_features={feats}]:{k}", "the setting is in the dump with its value", tj.loc(),
                    why_fail=f"dump has {d.get(k)!r}" if isinstance(d, dict) else repr(d))
        if feats:
            r.check(isinstance(d, dict) and d.get("entity_features") == feats, f"Survey.to_json_dict[entity_features={feats}]:entity_features", "the entity features are in the dump", tj.loc())
    # children: list (sections) and tuple (osm tags, choices of a select)
    ocls = repo.cls("pyxform.question:OsmUploadQuestion")
    tcls = repo.cls("pyxform.question:Tag")
    gcls = repo.cls("pyxform.section:GroupedSection")
    qcls = repo.cls("pyxform.question:InputQuestion")

    def mkel(ci, **kw_):
        sl = tuple(_slots(ctx, ci))
        a = {k: None for k in sl}
        a.update(kw_)
        return Obj(ci, a, name=kw_.get("name", "el"), slots=sl)
    for desc, el, want in (
            ("osm question, tags as a tuple", mkel(ocls, name="o", type="osm", label="O", bind={"type": "binary"}, control={"tag": "upload", "mediatype": "osm/*"},
                                                   children=(mkel(tcls, name="building", label="Building"), mkel(tcls, name="levels", label="Levels"))), ["building", "levels"]),
            ("osm question, tags as a list", mkel(ocls, name="o", type="osm", label="O", bind={"type": "binary"}, control={"tag": "upload", "mediatype": "osm/*"},
                                                  children=[mkel(tcls, name="building", label="Building")]), ["building"]),
            ("group, rows as a list", mkel(gcls, name="g", type="group", label="G", children=[mkel(qcls, name="a", type="text", label="A", bind={"type": "string"}), mkel(qcls, name="b", type="text", label="B", bind={"type": "string"})]), ["a", "b"]),
            ("group, rows as a tuple", mkel(gcls, name="g", type="group", label="G", children=(mkel(qcls, name="a", type="text", label="A", bind={"type": "string"}),)), ["a"])):
        tjx = next(c.methods["to_json_dict"] for c in ctx.consts.interp.mro(el.cls) if "to_json_dict" in c.methods)
        it = ctx.interp("C16.R10", hooks={"fnname:validate": lambda i, a, k, n: None})
        it.reset([])
        try:
            d = it.call_function(tjx, [el], {}, None, tjx.node)
            got = [c.get("name") for c in (d.get("children") or [])] if isinstance(d, dict) else None
        except Raised as e:
            got = f"raises {e.exc_name}{e.exc_args}"
        r.check(got == want, f"to_json_dict[{desc}]", "the dump lists every child, in order", tjx.loc(), why_fail=f"children in the dump: {got!r}")
    # ... and the constructor reads the tags back from where the dump (`children`) and the workbook form (`tags`) put them
    from ..interp import ClassVal as _CV
    for key_ in ("children", "tags"):
        itc_ = ctx.interp("C16.R10", inline=lambda fi: True)
        itc_.reset([])
        try:
            o_ = itc_.call(_CV(ocls), [], {"name": "o", "type": "osm", "label": "O", key_: [{"name": "building", "label": "Building"}, {"name": "levels", "label": "Levels"}]}, ocls.node)
            got_ = [getattr(c_, "name", None) if not isinstance(c_, Obj) else c_.attrs.get("name") for c_ in (o_.attrs.get("children") or ())]
        except Raised as e:
            got_ = f"raises {e.exc_name}{e.exc_args}"
        r.check(got_ == ["building", "levels"], f"OsmUploadQuestion(**dump)[tags under `{key_}`]", "the rebuilt question has its tags", ocls.methods["__init__"].loc() if "__init__" in ocls.methods else ocls.module.relpath, why_fail=repr(got_))
    # what a section leaves out of ITS OWN dump (a group's bind: recorded finding) is not left out of its descendants':
    # a repeat with logic inside a group, a question whose type has no bind template inside a group, two levels down
    rcls = repo.cls("pyxform.section:RepeatingSection")
    mcls = repo.cls("pyxform.question:MultipleChoiceQuestion")
    icls = repo.cls("pyxform.question:Itemset")
    opcls = repo.cls("pyxform.question:Option")

    def tree():
        a = mkel(qcls, name="a", type="text", label="A", bind={"type": "string", "required": "yes"})
        trig = mkel(qcls, name="t", type="trigger", label="T", bind={"relevant": "${a} = 1"})
        rep = mkel(rcls, name="r", type="repeat", label="R", bind={"relevant": "${a} != ''"}, control={"jr:count": "3"}, children=[a])
        inner = mkel(gcls, name="inner", type="group", label="I", control={"appearance": "field-list"}, children=[trig])
        return mkel(gcls, name="g", type="group", label="G", children=[rep, inner])
    g = tree()
    tjg = next(c.methods["to_json_dict"] for c in ctx.consts.interp.mro(g.cls) if "to_json_dict" in c.methods)
    it = ctx.interp("C16.R10", hooks={"fnname:validate": lambda i, a, k, n: None})
    it.reset([])
    try:
        d = it.call_function(tjg, [g], {}, None, tjg.node)
    except Raised as e:
        d = f"raises {e.exc_name}{e.exc_args}"
    if isinstance(d, dict):
        kids = {c.get("name"): c for c in d.get("children") or []}
        rep_d = kids.get("r") or {}
        inner_d = kids.get("inner") or {}
        a_d = next(iter(rep_d.get("children") or []), {})
        t_d = next(iter(inner_d.get("children") or []), {})
        r.check(rep_d.get("bind") == {"relevant": "${a} != ''"} and rep_d.get("control") == {"jr:count": "3"}, "to_json_dict[repeat with logic inside a group]", "the repeat's bind and control are in the dump", tjg.loc(), why_fail=repr(rep_d)[:200])
        r.check(a_d.get("bind") == {"type": "string", "required": "yes"}, "to_json_dict[question inside a repeat inside a group]", "the question's bind is in the dump", tjg.loc(), why_fail=repr(a_d)[:200])
        r.check(t_d.get("bind") == {"relevant": "${a} = 1"}, "to_json_dict[question without a type bind template, two groups down]", "the question's bind is in the dump", tjg.loc(), why_fail=repr(t_d)[:200])
        r.check(inner_d.get("control") == {"appearance": "field-list"}, "to_json_dict[group inside a group]", "the inner group's control is in the dump", tjg.loc(), why_fail=repr(inner_d)[:200])
    else:
        r.fail("to_json_dict[nested sections]", f"evaluates ({d})", tjg.loc())
    # a select question dumps its own copy of the options whenever it holds a choice list - also the generated table-list
    # header select, which has `itemset` but no `list_name`
    for desc, extra in (("select with list_name and itemset", {"list_name": "l", "itemset": "l"}), ("generated select with itemset only (table-list header)", {"itemset": "l"}), ("select with list_name only", {"list_name": "l"})):
        opts = (mkel(opcls, name="x", label="X"), mkel(opcls, name="y", label={"en": "Y"}))
        iset = Obj(icls, {"name": "l", "options": opts, "requires_itext": True, "used_by_search": False}, name="itemset")
        sel = mkel(mcls, name="s", type="select one", label="S", bind={"type": "string"}, choices=iset, **extra)
        tjs = next(c.methods["to_json_dict"] for c in ctx.consts.interp.mro(sel.cls) if "to_json_dict" in c.methods)
        it = ctx.interp("C16.R10", hooks={"fnname:validate": lambda i, a, k, n: None})
        it.reset([])
        try:
            d = it.call_function(tjs, [sel], {}, None, tjs.node)
            got = [c.get("name") for c in (d.get("children") or [])] if isinstance(d, dict) else None
        except Raised as e:
            got = f"raises {e.exc_name}{e.exc_args}"
        r.check(got == ["x", "y"], f"to_json_dict[{desc}]", "the select's dump lists its options (the builder re-attaches the survey's list only when the dump carries them)", tjs.loc(), why_fail=f"children in the dump: {got!r}")
    return r


ACCEPTED_BUILDER_STORES = {
    ("_create_section_from_dict", "title"): "a survey without a title gets its name as title; idempotent (recorded by sub-agents as a write into the caller's dict, harmless for rebuilds)",
    ("_add_none_option_to_select_all_that_apply", "bind"): "add_none_option (legacy, recorded): the 'none' constraint is appended once (guarded by `none_choice not in choice_list`)",
    ("_add_none_option_to_select_all_that_apply", "constraint"): "add_none_option (legacy, recorded): see above",
}


def builder_input_rule(ctx, prop, rid):
    """The dict a survey is built from belongs to the caller (ConvertResult._pyxform, a loaded JSON document, the value
    of to_json_dict()): building from it a second time, or dumping it afterwards, must see the same dict.  Decided as an
    effects rule: no builder method removes an entry from (pop / del / clear / popitem) data reachable from a
    parameter; constructors receive **d (a fresh kwargs dict) and may consume that."""
    from ..effects import root_name, writes_in
    r = Rule(prop, rid, "the builder does not consume the dict it builds from", floor=2,
             necessary="an entry popped from the caller's dict is missing from the next build and from the JSON written from it")
    bcls = ctx.repo.cls("pyxform.builder:SurveyElementBuilder")
    n = 0
    for name, fi in sorted(bcls.methods.items()):
        a = fi.node.args
        params = {x.arg for x in [*a.posonlyargs, *a.args, *a.kwonlyargs]} - {"self"}
        # locals bound to (parts of) a parameter without a copy
        alias = set(params)
        changed = True
        while changed:
            changed = False
            for x in walk_own(fi.node):
                if isinstance(x, ast.Assign) and len(x.targets) == 1 and isinstance(x.targets[0], ast.Name) and x.targets[0].id not in alias:
                    v = x.value
                    while isinstance(v, ast.Subscript | ast.Attribute) or (isinstance(v, ast.Call) and isinstance(v.func, ast.Attribute) and v.func.attr in ("get", "setdefault")):
                        v = v.func.value if isinstance(v, ast.Call) else v.value
                    if isinstance(v, ast.Name) and v.id in alias:
                        alias.add(x.targets[0].id)
                        changed = True
                elif isinstance(x, ast.For) and isinstance(x.target, ast.Name) and x.target.id not in alias and isinstance(x.iter, ast.Name) and x.iter.id in alias:
                    alias.add(x.target.id)
                    changed = True
        # `for x in d.get(KEY, ())` / `for x in d[KEY]`: x is a part of the parameter
        for x in walk_own(fi.node):
            if isinstance(x, ast.For) and isinstance(x.target, ast.Name) and x.target.id not in alias:
                v = x.iter
                while isinstance(v, ast.Subscript | ast.Attribute) or (isinstance(v, ast.Call) and isinstance(v.func, ast.Attribute) and v.func.attr in ("get", "setdefault", "values")):
                    v = v.func.value if isinstance(v, ast.Call) else v.value
                if isinstance(v, ast.Name) and v.id in alias:
                    alias.add(x.target.id)
        for kind, tgt, node in writes_in(fi.node):
            if kind == "store" and isinstance(tgt, ast.Subscript):
                # a key written into the caller's definition: the same dict built again is no longer the same definition.
                # Accepted (each confirmed by reading; keyed by method and folded key): the values written are functions of
                # the dict itself and writing them twice changes nothing.
                t = tgt
                while isinstance(t, ast.Subscript | ast.Attribute):
                    t = t.value
                rn = t.id if isinstance(t, ast.Name) else None
                if rn in alias:
                    okk, kv = const_str(ctx, fi.module, tgt.slice)
                    acc = ACCEPTED_BUILDER_STORES.get((fi.name, kv if okk else norm(tgt.slice)))
                    n += 1
                    r.check(acc is not None, f"{fi.qualname}:store {norm(tgt)[:40]}", f"accepted: {acc}" if acc else "the builder does not write into the dict it builds from", fi.loc(node),
                            why_fail=f"`{norm(node)[:70]}` changes the caller's definition (via `{rn}`): the element objects already built from it and the next build disagree")
                continue
            if kind == "del":
                meth = "del"
            elif kind == "mutator" and node.func.attr in ("pop", "popitem", "clear"):
                meth = node.func.attr
            else:
                continue
            t = tgt
            while isinstance(t, ast.Subscript | ast.Attribute) or (isinstance(t, ast.Call) and isinstance(t.func, ast.Attribute) and t.func.attr in ("get", "setdefault")):
                t = t.func.value if isinstance(t, ast.Call) else t.value
            rn = t.id if isinstance(t, ast.Name) else None
            n += 1
            r.check(rn not in alias, f"{fi.qualname}:{meth} on {norm(tgt)[:40]}", "deleting writes do not reach the dict being built from", fi.loc(node),
                    why_fail=f"`{norm(node)[:70]}` removes an entry from the caller's dict (via `{rn}`)")
    r.ok("builder deleting writes census", f"{n} deleting writes in {len(bcls.methods)} builder methods examined", bcls.module.relpath)
    r.check(len(bcls.methods) >= 6, "builder methods census", "the builder's methods were found", bcls.module.relpath)
    return r


def _question_roundtrip_rule(ctx):
    """C16.R6: construct -> dump -> JSON text -> construct again, evaluated abstractly for single questions whose cells
    override / extend the type table's defaults: the rebuilt question has the same effective bind, control and texts."""
    import json as _json
    repo = ctx.repo
    it0 = ctx.consts.interp
    r6 = Rule("C16", "C16.R6", "a question rebuilt from its own dump has the same effective bind / control", floor=8,
              necessary="an override of a type default (range decimal, bind::type on a calculate, read_only=no on a note) lost in the dump changes the XForm after reload")
    cases = [
        ("range with decimal step", "pyxform.question:RangeQuestion", {"name": "r", "type": "range", "label": "L", "bind": {"type": "decimal"}, "parameters": {"start": "1", "end": "2", "step": "0.5"}}),
        ("calculate with bind::type", "pyxform.question:InputQuestion", {"name": "c", "type": "calculate", "bind": {"type": "int", "calculate": "1 + 1"}}),
        ("note made editable", "pyxform.question:InputQuestion", {"name": "n", "type": "note", "label": "N", "bind": {"readonly": "false()"}}),
        ("text with logic and appearance", "pyxform.question:InputQuestion", {"name": "t", "type": "text", "label": {"en": "T", "fr": "T2"}, "hint": "H", "bind": {"relevant": "${a} > 1", "required": "yes"}, "control": {"appearance": "multiline"}}),
        ("integer with constraint message", "pyxform.question:InputQuestion", {"name": "i", "type": "integer", "label": "I", "bind": {"constraint": ". > 0", "jr:constraintMsg": {"en": "m"}}}),
        ("photo with parameters", "pyxform.question:UploadQuestion", {"name": "p", "type": "photo", "label": "P", "bind": {"orx:max-pixels": "640"}, "control": {"intent": "x.y"}}),
        ("select with own control override", "pyxform.question:MultipleChoiceQuestion", {"name": "s", "type": "select one", "label": "S", "itemset": "l", "list_name": "l", "control": {"appearance": "minimal"}, "bind": {"type": "int"}}),
        ("legacy type whose default hint is overridden", "pyxform.question:InputQuestion", {"name": "d", "type": "number of days in last month", "label": "D", "hint": "my own hint"}),
        ("legacy type keeping its default hint", "pyxform.question:InputQuestion", {"name": "d2", "type": "number of days in last month", "label": "D"}),
        ("geopoint with accuracy", "pyxform.question:InputQuestion", {"name": "g", "type": "geopoint", "label": "G", "control": {"accuracyThreshold": "5"}, "bind": {"odk:allow-mock-accuracy": "true"}}),
    ]
    keep = ("name", "type", "label", "hint", "bind", "control", "parameters", "default", "itemset", "list_name", "media", "instance", "choice_filter", "trigger", "query")
    for desc, fq, kwargs in cases:
        ci = repo.cls(fq)
        slots = tuple(_slots(ctx, ci))
        tj = next((c.methods["to_json_dict"] for c in it0.mro(ci) if "to_json_dict" in c.methods), None)
        it = ctx.interp("C16.R6", hooks={"fnname:validate": lambda i, a, k, n: None})
        try:
            it.reset([])
            q1 = it.call(ClassVal(ci), [], _json.loads(_json.dumps(kwargs)), None)
            q1.slots = slots
            it.reset([])
            d = it.call_function(tj, [q1], {}, None, tj.node)
            d = _json.loads(_json.dumps(d))  # through JSON text
            it.reset([])
            q2 = it.call(ClassVal(ci), [], dict(d), None)
            q2.slots = slots
            it.reset([])
            d2 = it.call_function(tj, [q2], {}, None, tj.node)
        except Raised as e:
            r6.fail(f"roundtrip[{desc}]", f"evaluates ({e.exc_name}{e.exc_args})", tj.loc())
            continue
        except (TypeError, ValueError) as e:
            r6.fail(f"roundtrip[{desc}]", f"dump is JSON-serialisable ({e})", tj.loc())
            continue
        diff = {k: (q1.attrs.get(k), q2.attrs.get(k)) for k in keep if q1.attrs.get(k) != q2.attrs.get(k)}
        r6.check(not diff, f"roundtrip[{desc}]", "rebuilt question has the same effective fields", tj.loc(), why_fail=f"{diff}"[:250])
        r6.check(_json.loads(_json.dumps(d2)) == d, f"roundtrip[{desc}]:dump stable", "dump -> load -> dump is a fixpoint", tj.loc(), why_fail=f"{d} vs {d2}"[:250])
    return r6
