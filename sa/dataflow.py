"""Reaching definitions and def-use resolution over the statement CFG (sa/cfg.py).  Stdlib only."""

from __future__ import annotations

import ast

from . import cfg as cfgmod


def _targets(t):
    if isinstance(t, ast.Name):
        yield t.id
    elif isinstance(t, ast.Tuple | ast.List):
        for e in t.elts:
            yield from _targets(e)
    elif isinstance(t, ast.Starred):
        yield from _targets(t.value)


def defs_of(node: cfgmod.Node) -> dict[str, ast.AST | None]:
    """name -> defining value expression (None when the value is not a plain expression: loop target, unpacking...)."""
    s = node.stmt
    out: dict[str, ast.AST | None] = {}
    if s is None:
        return out
    if node.kind == "iter" and isinstance(s, ast.For | ast.AsyncFor):
        for n in _targets(s.target):
            out[n] = None
        return out
    if node.kind == "with" and isinstance(s, ast.With | ast.AsyncWith):
        for it in s.items:
            if it.optional_vars is not None:
                for n in _targets(it.optional_vars):
                    out[n] = None
        return out
    if node.kind == "handler" and isinstance(s, ast.ExceptHandler) and s.name:
        out[s.name] = None
        return out
    if isinstance(s, ast.Assign):
        for t in s.targets:
            if isinstance(t, ast.Name):
                out[t.id] = s.value
            else:
                for n in _targets(t):
                    out[n] = None
    elif isinstance(s, ast.AnnAssign) and isinstance(s.target, ast.Name) and s.value is not None:
        out[s.target.id] = s.value
    elif isinstance(s, ast.AugAssign) and isinstance(s.target, ast.Name):
        out[s.target.id] = None
    elif isinstance(s, ast.Import | ast.ImportFrom):
        for a in s.names:
            out[(a.asname or a.name).split(".")[0]] = None
    elif isinstance(s, ast.FunctionDef | ast.AsyncFunctionDef | ast.ClassDef):
        out[s.name] = None
    # walrus targets inside the node's own expression
    for x in cfgmod.own_exprs(s if node.kind in ("stmt", "test") else None):
        if isinstance(x, ast.NamedExpr) and isinstance(x.target, ast.Name):
            out[x.target.id] = x.value
    return out


class ReachingDefs:
    """IN[n][name] = set of CFG node ids whose definition of `name` may reach the entry of n (-1 = defined before the
    analysed statement list: parameter / earlier code)."""

    def __init__(self, g: cfgmod.CFG, skip_labels=frozenset()):
        self.g = g
        self.defs = {i: defs_of(n) for i, n in g.nodes.items()}
        self.IN: dict[int, dict[str, frozenset]] = {g.entry: {}}
        names = {nm for d in self.defs.values() for nm in d}
        entry_state = {nm: frozenset({-1}) for nm in names}
        self.IN[g.entry] = entry_state
        work = [g.entry]
        while work:
            x = work.pop()
            st = dict(self.IN.get(x, {}))
            for nm in self.defs.get(x, {}):
                st[nm] = frozenset({x})
            for y, lab in g.succ[x]:
                if lab in skip_labels:
                    continue
                cur = self.IN.get(y)
                if cur is None:
                    self.IN[y] = dict(st)
                    work.append(y)
                    continue
                changed = False
                for nm, s in st.items():
                    old = cur.get(nm, frozenset())
                    new = old | s
                    if new != old:
                        cur[nm] = new
                        changed = True
                if changed:
                    work.append(y)

    def reaching(self, node_id: int, name: str) -> frozenset:
        return self.IN.get(node_id, {}).get(name, frozenset({-1}))

    def value_exprs(self, node_id: int, name: str):
        """[(def node id, value expr or None)] of the definitions of `name` reaching node_id."""
        out = []
        for d in sorted(self.reaching(node_id, name)):
            if d == -1:
                out.append((-1, None))
            else:
                out.append((d, self.defs[d].get(name)))
        return out

    def depends_on(self, node_id: int, expr: ast.AST, names: set[str], _seen=None) -> bool:
        """`expr`, evaluated at node_id, may be computed from one of `names` (through reaching definitions)."""
        seen = _seen if _seen is not None else set()
        for n in ast.walk(expr):
            if not isinstance(n, ast.Name):
                continue
            if n.id in names:
                return True
            for d, v in self.value_exprs(node_id, n.id):
                if (d, n.id) in seen or d == -1:
                    continue
                seen.add((d, n.id))
                if v is None:
                    # loop target / augmented assignment / unpacking: depend on the statement's own expressions
                    st = self.g.nodes[d].stmt
                    srcs = []
                    if isinstance(st, ast.For | ast.AsyncFor):
                        srcs = [st.iter]
                    elif isinstance(st, ast.AugAssign):
                        srcs = [st.value, ast.Name(id=st.target.id, ctx=ast.Load())] if isinstance(st.target, ast.Name) else [st.value]
                    elif isinstance(st, ast.Assign):
                        srcs = [st.value]
                    for s in srcs:
                        if self.depends_on(d, s, names, seen):
                            return True
                elif self.depends_on(d, v, names, seen):
                    return True
        return False

    def resolve(self, node_id: int, expr: ast.AST, depth: int = 6):
        """`expr` with every Name that has exactly one reaching definition (a plain `name = value`) replaced by that
        value, recursively.  Returns a fresh AST."""

        def clone(n, at, d):
            if isinstance(n, ast.Name) and isinstance(n.ctx, ast.Load) and d > 0:
                vs = self.value_exprs(at, n.id)
                if len(vs) > 1:
                    # `m = base` followed by an optional `m = m + extra`: the base definition names the value
                    base = [(i, v) for i, v in vs if v is not None and i != -1
                            and not any(isinstance(y, ast.Name) and y.id == n.id for y in ast.walk(v))]
                    rest = [(i, v) for i, v in vs if (i, v) not in base]
                    if len(base) == 1 and all(v is not None and i != -1 for i, v in rest):
                        vs = base
                if len(vs) == 1 and vs[0][1] is not None and vs[0][0] != -1:
                    return clone(vs[0][1], vs[0][0], d - 1)
            if isinstance(n, list):
                return [clone(x, at, d) for x in n]
            if not isinstance(n, ast.AST):
                return n
            new = type(n)()
            for f, v in ast.iter_fields(n):
                setattr(new, f, clone(v, at, d))
            for a in ("lineno", "col_offset", "end_lineno", "end_col_offset"):
                if hasattr(n, a):
                    setattr(new, a, getattr(n, a))
            return new

        return clone(expr, node_id, depth)
