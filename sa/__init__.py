"""Static-analysis engine for the pyxform verification task (no execution of
the analysed package; stdlib only)."""
