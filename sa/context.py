"""Shared analysis context: repo, folded constants, class table helpers."""

from __future__ import annotations

from .consts import Consts
from .interp import Interp
from .loader import AnalysisError, Repo


class Context:
    def __init__(self, repo_root: str, tier: str = "quick"):
        self.repo = Repo(repo_root)
        self.consts = Consts(self.repo)
        self.tier = tier
        self._stats = {
            "modules_parsed": len(self.repo.modules),
            "functions_indexed": sum(len(m.functions) for m in self.repo.modules.values()),
            "classes_indexed": sum(len(m.classes) for m in self.repo.modules.values()),
            "source_digest": self.repo.digest(),
        }

    def stats(self) -> dict:
        return dict(self._stats)

    def count(self, key: str, n: int = 1):
        self._stats[key] = self._stats.get(key, 0) + n

    def interp(self, rule: str, hooks=None, inline=None) -> Interp:
        it = Interp(self.repo, hooks=hooks, inline=inline, rule=rule)
        # share folded module constants
        it._modcache = self.consts.interp._modcache
        return it

    def func(self, fq: str, rule: str):
        fi = self.repo.find_func(fq)
        if fi is None:
            raise AnalysisError(rule, f"anchor function {fq} not found")
        return fi
