"""Shared analysis context: repo, folded constants, class table helpers."""

from __future__ import annotations

import os

from .consts import Consts
from .interp import Interp
from .loader import AnalysisError, Repo


class Context:
    def __init__(self, repo_root: str, tier: str = "quick"):
        self.repo = Repo(repo_root)
        self.inliner = None
        self.renames = []
        if os.environ.get("VERIF_NO_INLINE") != "1":
            from .roles import recover
            from .rowloop import recover_frame_keys
            self.renames = [("workbook_to_json frame key", a, b) for a, b in recover_frame_keys(self.repo)]
            self.renames += recover(self.repo)
            from .inline import normalise
            self.inliner = normalise(self.repo, os.path.dirname(os.path.dirname(os.path.abspath(__file__))))
        self.consts = Consts(self.repo)
        self._publish_structural_names()
        self.tier = tier
        self._stats = {
            "modules_parsed": len(self.repo.modules),
            "functions_indexed": sum(len(m.functions) for m in self.repo.modules.values()),
            "classes_indexed": sum(len(m.classes) for m in self.repo.modules.values()),
            "source_digest": self.repo.digest(),
            "helper_calls_expanded": len(self.inliner.log) if self.inliner else 0,
            "renamed_locals_recovered": [f"{f}: {a} -> {b}" for f, a, b in self.renames],
        }

    def _publish_structural_names(self):
        import ast as _ast

        from . import report
        names = set()
        for m in self.repo.modules.values():
            names.update(m.name.split("."))
            names.update(m.classes)
            names.update(f.name for f in m.functions.values())
            names.update(m.assigns)
            for x in _ast.walk(m.tree):
                if isinstance(x, _ast.Attribute):
                    names.add(x.attr)
                elif isinstance(x, _ast.keyword) and x.arg:
                    names.add(x.arg)
        report.STRUCTURAL_NAMES = names

    def stats(self) -> dict:
        return dict(self._stats)

    def count(self, key: str, n: int = 1):
        self._stats[key] = self._stats.get(key, 0) + n

    def interp(self, rule: str, hooks=None, inline=None) -> Interp:
        it = Interp(self.repo, hooks=hooks, inline=inline, rule=rule)
        # share folded module constants
        it._modcache = self.consts.interp._modcache
        return it

    def other(self, mod):
        """The rules of another property's check, for sharing obligations between neighbouring properties; computed once
        per context.  If that analysis stops early (an anchor it needs has moved, an unmodelled construct), the rules it
        had completed are returned and the list is marked `broken`: a rule that shares from it keeps what exists and its
        floor is waived (noted in the evidence) - one property's analysis error must not silence the others' verdicts."""
        key = mod.__name__
        cache = self.__dict__.setdefault("_other", {})
        if key in cache:
            return cache[key]
        from .report import ALL_RULES

        class _Rules(list):
            broken = None
        n0 = len(ALL_RULES)
        prop = key.rsplit(".", 1)[-1].upper()
        cache[key] = _Rules()  # a cycle of sharing sees an empty list, not a recursion
        try:
            rules = _Rules(mod.run(self))
        except Exception as e:  # noqa: BLE001
            rules = _Rules(r for r in ALL_RULES[n0:] if r.rid.startswith(prop + "."))
            rules.broken = f"{prop}: {str(e)[:160]}"
        cache[key] = rules
        return rules

    def func(self, fq: str, rule: str):
        fi = self.repo.find_func(fq)
        if fi is None:
            raise AnalysisError(rule, f"anchor function {fq} not found")
        return fi
