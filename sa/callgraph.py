"""Over-approximate call graph: resolved names/imports, class-hierarchy
analysis by method name for attribute calls, constructor edges, and function
references stored in tables."""

from __future__ import annotations

import ast

from .loader import FuncInfo, Repo, walk_own


class CallGraph:
    def __init__(self, repo: Repo, interp):
        self.repo = repo
        self.interp = interp
        self.by_name: dict[str, list[FuncInfo]] = {}
        for f in repo.all_functions():
            self.by_name.setdefault(f.name, []).append(f)
        self.edges: dict[str, set[str]] = {}
        self.unresolved = 0
        self.resolved = 0
        self.funcs = {f.fq: f for f in repo.all_functions()}
        for f in repo.all_functions():
            self.edges[f.fq] = self._callees(f)

    def _callees(self, f: FuncInfo) -> set[str]:
        out = set()
        # nested functions are reachable from their parent (they may be called or yielded from)
        for g in self.repo.all_functions():
            if g.parent is f:
                out.add(g.fq)
        for x in walk_own(f.node):
            if isinstance(x, ast.Call):
                fn = x.func
                if isinstance(fn, ast.Name):
                    r = self.repo.resolve_name(f.module, fn.id)
                    if r and r[0] == "func":
                        out.add(r[1].fq)
                        self.resolved += 1
                    elif r and r[0] == "class":
                        self._ctor(r[1], out)
                        self.resolved += 1
                    else:
                        self.unresolved += 0 if r else 0
                elif isinstance(fn, ast.Attribute):
                    r = self.repo.resolve_dotted(f.module, fn)
                    if r and r[0] == "func":
                        out.add(r[1].fq)
                        self.resolved += 1
                    elif r and r[0] == "class":
                        self._ctor(r[1], out)
                        self.resolved += 1
                    elif r and r[0] == "ext":
                        self.resolved += 1
                    else:
                        cands = [g for g in self.by_name.get(fn.attr, []) if g.cls is not None or g.parent is None]
                        if cands:
                            self.resolved += 1
                            for g in cands:
                                out.add(g.fq)
                        else:
                            self.unresolved += 1
            elif isinstance(x, ast.Name) and isinstance(x.ctx, ast.Load):
                r = self.repo.resolve_name(f.module, x.id)
                if r and r[0] == "func":
                    out.add(r[1].fq)
                elif r and r[0] == "class":
                    self._ctor(r[1], out)
        return out

    def _ctor(self, ci, out):
        for c in self.interp.mro(ci):
            if "__init__" in c.methods:
                out.add(c.methods["__init__"].fq)
                break
        # instances may later receive any method call: handled by name-CHA at the call site

    def reachable(self, roots: list[str]) -> set[str]:
        seen = set()
        stack = list(roots)
        while stack:
            x = stack.pop()
            if x in seen or x not in self.edges:
                continue
            seen.add(x)
            stack.extend(self.edges[x] - seen)
        return seen
