"""Over-approximate call graph: resolved names/imports, class-hierarchy
analysis by method name for attribute calls, constructor edges, and function
references stored in tables."""

from __future__ import annotations

import ast

from .loader import FuncInfo, Repo, walk_own


class CallGraph:
    def __init__(self, repo: Repo, interp):
        self.repo = repo
        self.interp = interp
        self.by_name: dict[str, list[FuncInfo]] = {}
        for f in repo.all_functions():
            self.by_name.setdefault(f.name, []).append(f)
        self.edges: dict[str, set[str]] = {}
        self.unresolved = 0
        self.resolved = 0
        self.funcs = {f.fq: f for f in repo.all_functions()}
        self.direct: dict[str, set[str]] = {}  # caller fq -> callees reached by a resolved (non-CHA) edge
        self._dcur: set[str] = set()
        for f in repo.all_functions():
            self._dcur = set()
            self.edges[f.fq] = self._callees(f)
            self.direct[f.fq] = self._dcur

    def _callees(self, f: FuncInfo) -> set[str]:
        out = set()
        # nested functions are reachable from their parent (they may be called or yielded from)
        for g in self.repo.all_functions():
            if g.parent is f:
                out.add(g.fq)
                self._dcur.add(g.fq)
        for x in walk_own(f.node):
            if isinstance(x, ast.Call):
                fn = x.func
                if isinstance(fn, ast.Name):
                    r = self.repo.resolve_name(f.module, fn.id)
                    if r and r[0] == "func":
                        out.add(r[1].fq)
                        self._dcur.add(r[1].fq)
                        self.resolved += 1
                    elif r and r[0] == "class":
                        self._ctor(r[1], out)
                        self.resolved += 1
                elif isinstance(fn, ast.Attribute):
                    r = self.repo.resolve_dotted(f.module, fn)
                    if fn.attr in ("toxml", "toprettyxml"):
                        # curated fact: minidom toxml/toprettyxml call self.writexml
                        for g in self.by_name.get("writexml", []):
                            out.add(g.fq)
                            self._dcur.add(g.fq)
                    if r and r[0] == "func":
                        out.add(r[1].fq)
                        self._dcur.add(r[1].fq)
                        self.resolved += 1
                    elif r and r[0] == "class":
                        self._ctor(r[1], out)
                        self.resolved += 1
                    elif r and r[0] == "ext":
                        self.resolved += 1
                    else:
                        # class-hierarchy analysis by method name; module-level functions are only
                        # reachable through resolved names (handled above)
                        cands = [g for g in self.by_name.get(fn.attr, []) if g.cls is not None]
                        if isinstance(fn.value, ast.Name) and fn.value.id in ("self", "cls"):
                            owner = f
                            while owner.cls is None and owner.parent is not None:
                                owner = owner.parent
                            if owner.cls is not None:
                                rel = self._related(owner.cls)
                                narrowed = [g for g in cands if g.cls.fq in rel]
                                cands = narrowed or cands
                        if cands:
                            self.resolved += 1
                            for g in cands:
                                out.add(g.fq)
                        else:
                            self.unresolved += 1
            elif isinstance(x, ast.Name) and isinstance(x.ctx, ast.Load):
                r = self.repo.resolve_name(f.module, x.id)
                if r and r[0] == "func":
                    out.add(r[1].fq)
                elif r and r[0] == "class":
                    self._ctor(r[1], out)
        return out

    def _related(self, ci) -> set[str]:
        if not hasattr(self, "_rel"):
            self._rel = {}
        if ci.fq not in self._rel:
            anc = {c.fq for c in self.interp.mro(ci)}
            desc = {c.fq for c in self.repo.all_classes() if ci.fq in {x.fq for x in self.interp.mro(c)}}
            self._rel[ci.fq] = anc | desc
        return self._rel[ci.fq]

    def _ctor(self, ci, out):
        for c in self.interp.mro(ci):
            if "__init__" in c.methods:
                out.add(c.methods["__init__"].fq)
                self._dcur.add(c.methods["__init__"].fq)
                break
        # instances may later receive any method call: handled by name-CHA at the call site

    # ----------------------------------------------------------------- RTA
    def _class_loads(self):
        """function fq -> set of class fq whose name is loaded in it (directly or
        through a module-level table the function reads)."""
        if hasattr(self, "_cl"):
            return self._cl
        table_classes: dict[tuple[str, str], set[str]] = {}
        for m in self.repo.modules.values():
            for name, stmts in m.assigns.items():
                cs = set()
                for st in stmts:
                    for n in ast.walk(st):
                        if isinstance(n, ast.Name) and isinstance(n.ctx, ast.Load):
                            r = self.repo.resolve_name(m, n.id)
                            if r and r[0] == "class":
                                cs.add(r[1].fq)
                if cs:
                    table_classes[(m.name, name)] = cs
        out = {}
        for f in self.repo.all_functions():
            cs = set()
            for n in walk_own(f.node):
                if isinstance(n, ast.Name) and isinstance(n.ctx, ast.Load):
                    r = self.repo.resolve_name(f.module, n.id)
                    if r and r[0] == "class":
                        cs.add(r[1].fq)
                    elif r and r[0] == "const":
                        cs |= table_classes.get((r[1].name, r[2]), set())
                elif isinstance(n, ast.Attribute):
                    r = self.repo.resolve_dotted(f.module, n)
                    if r and r[0] == "class":
                        cs.add(r[1].fq)
                    elif r and r[0] == "const":
                        cs |= table_classes.get((r[1].name, r[2]), set())
            out[f.fq] = cs
        self._cl = out
        return out

    def reachable(self, roots: list[str], all_live: bool = False) -> set[str]:
        """Rapid type analysis: a method found only by name (class-hierarchy
        analysis) is followed only if its class, or a subclass, is referenced by
        already-reachable code."""
        loads = self._class_loads()
        classes = {c.fq: c for c in self.repo.all_classes()}
        anc = {fq: {x.fq for x in self.interp.mro(c)} for fq, c in classes.items()}
        live_classes: set[str] = set(classes) if all_live else set()
        seen: set[str] = set()
        pending: set[str] = set()  # method candidates waiting for their class to become live
        stack = [(r, True) for r in roots]
        while stack:
            x, direct = stack.pop()
            if x in seen or x not in self.edges:
                continue
            f = self.funcs[x]
            owner = f
            while owner.cls is None and owner.parent is not None:
                owner = owner.parent
            if owner.cls is not None and not direct:
                ok = any(owner.cls.fq in anc[l] for l in live_classes)
                if not ok:
                    pending.add(x)
                    continue
            seen.add(x)
            new_live = loads.get(x, set()) - live_classes
            if new_live:
                live_classes |= new_live
                stack.extend((p, False) for p in pending)
                pending = set()
            for y in self.edges[x] - seen:
                stack.append((y, y in self.direct.get(x, ())))
        return seen
