"""Driver: ./check <ID> [--tier quick|thorough] [--repo DIR]"""

from __future__ import annotations

import argparse
import importlib
import os
import sys
import time
import traceback

from .context import Context
from .loader import AnalysisError
from .report import finish


def main(argv=None) -> int:
    ap = argparse.ArgumentParser()
    ap.add_argument("prop")
    ap.add_argument("--tier", default=os.environ.get("VERIF_TIER", "quick"), choices=["quick", "thorough"])
    ap.add_argument("--repo", default=os.environ.get("VERIF_REPO", "/repo"))
    ap.add_argument("--no-battery", action="store_true")
    args = ap.parse_args(argv)
    prop = args.prop.upper()
    started = time.time()
    try:
        mod = importlib.import_module(f"sa.checks.{prop.lower()}")
        ctx = Context(args.repo, args.tier)
        rules = mod.run(ctx)
        stats = ctx.stats()
        if args.tier == "thorough" and not args.no_battery and os.path.abspath(args.repo) == "/repo":
            try:
                from .selftest import battery
            except ImportError:
                battery = None
            if battery is not None:
                stats["battery"] = battery(prop, args.repo)
        return finish(prop, args.tier, rules, started, mod.EXPLANATION, mod.ASSUMPTIONS, stats, mod.NOT_DECIDED)
    except AnalysisError as e:
        print(f"ANALYSIS-ERROR property={prop} {e}")
        return 2
    except Exception:  # noqa: BLE001 - a checker crash is never a verdict
        tb = traceback.format_exc()
        print(f"ANALYSIS-ERROR property={prop} rule=checker-exception reason=unexpected exception in the checker")
        print(tb)
        return 2


if __name__ == "__main__":
    sys.exit(main())
