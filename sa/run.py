"""Driver: ./check <ID> [--tier quick|thorough] [--repo DIR]"""

from __future__ import annotations

import argparse
import importlib
import os
import sys
import time
import traceback

from .context import Context
from .loader import AnalysisError
from .report import finish


def main(argv=None) -> int:
    ap = argparse.ArgumentParser()
    ap.add_argument("prop")
    ap.add_argument("--tier", default=os.environ.get("VERIF_TIER", "quick"), choices=["quick", "thorough"])
    ap.add_argument("--repo", default=os.environ.get("VERIF_REPO", "/repo"))
    ap.add_argument("--no-battery", action="store_true")
    args = ap.parse_args(argv)
    prop = args.prop.upper()
    started = time.time()
    battery_error = None
    try:
        mod = importlib.import_module(f"sa.checks.{prop.lower()}")
        ctx = Context(args.repo, args.tier)
        rules = mod.run(ctx)
        stats = ctx.stats()
        if args.tier == "thorough" and not args.no_battery and os.path.abspath(args.repo) == "/repo":
            try:
                from .selftest import battery
            except ImportError:
                battery = None
            if battery is not None:
                # the battery measures the CHECKER on variants of the current tree; on a tree that already violates the
                # property every variant is reported too, which says nothing about the checker: the verdict on the tree
                # itself comes first, a battery failure matters only when that verdict is "holds"
                try:
                    stats["battery"] = battery(prop, args.repo)
                except AnalysisError as e:
                    battery_error = e
                    stats["battery"] = {"failed": str(e)}
        rc = finish(prop, args.tier, rules, started, mod.EXPLANATION, mod.ASSUMPTIONS, stats, mod.NOT_DECIDED)
        if rc == 0 and battery_error is not None:
            print(f"ANALYSIS-ERROR property={prop} {battery_error}")
            return 2
        return rc
    except AnalysisError as e:
        print(f"ANALYSIS-ERROR property={prop} {e}")
        return _partial(prop, args.tier, started, str(e))
    except Exception:  # noqa: BLE001 - a checker crash is never a verdict
        tb = traceback.format_exc()
        print(f"ANALYSIS-ERROR property={prop} rule=checker-exception reason=unexpected exception in the checker")
        print(tb)
        return _partial(prop, args.tier, started, "checker-exception: " + tb.strip().splitlines()[-1][:300])


def _partial(prop, tier, started, why) -> int:
    """A rule that cannot be analysed decides nothing - but the obligations that WERE evaluated before it stand: a failed
    one is still a violation at a named construct.  Without one the run stays exit 2."""
    try:
        from .report import ALL_RULES
        rules = [r for r in ALL_RULES if r.rid.startswith(prop + ".") and any(o["verdict"] == "FAILED" for o in r.obligations)]
        if not rules:
            return 2
        mod = importlib.import_module(f"sa.checks.{prop.lower()}")
        print(f"NOTE: the analysis stopped early ({why[:200]}); the obligations evaluated before that are reported")
        return finish(prop, tier, rules, started, mod.EXPLANATION, mod.ASSUMPTIONS, {}, mod.NOT_DECIDED, partial=why)
    except Exception:  # noqa: BLE001
        print(traceback.format_exc())
        return 2


if __name__ == "__main__":
    sys.exit(main())
