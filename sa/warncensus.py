"""Census of advisory-warning sites on the conversion path, keyed by message skeleton (constant pieces verbatim, computed
pieces as `{}`) so that the key survives re-wording of how the message is assembled and moves between functions."""
from __future__ import annotations

import ast

from .astutil import message_skeleton, subst_locals
from .callgraph import CallGraph
from .loader import norm, walk_own


def warning_skeletons(ctx):
    repo = ctx.repo
    cg = CallGraph(repo, ctx.consts.interp)
    reach = cg.reachable(["pyxform.xls2xform:convert"])
    out = {}
    for fi in repo.all_functions():
        if fi.fq not in reach:
            continue
        for c in walk_own(fi.node):
            if not (isinstance(c, ast.Call) and isinstance(c.func, ast.Attribute) and c.func.attr == "append" and c.args):
                continue
            recv = norm(c.func.value)
            if "warning" not in recv.lower():
                continue
            arg = subst_locals(c.args[0], fi.node, depth=3)
            sk = message_skeleton(ctx, fi.module, arg)
            out.setdefault(sk, []).append((fi, c))
    # advisories handed over as a list: `warnings.extend(g(...))` - the messages g appends to the list it returns are
    # advisories of the conversion as well (an extracted helper keeps its skeletons, a new check brings new ones)
    for fi in repo.all_functions():
        if fi.fq not in reach:
            continue
        for c in walk_own(fi.node):
            if not (isinstance(c, ast.Call) and isinstance(c.func, ast.Attribute) and c.func.attr in ("extend", "__iadd__") and c.args and "warning" in norm(c.func.value).lower()):
                continue
            src = c.args[0]
            if not isinstance(src, ast.Call):
                continue
            res = repo.resolve_dotted(fi.module, src.func) if isinstance(src.func, ast.Name | ast.Attribute) else None
            if not res or res[0] != "func":
                continue
            g = res[1]
            returned = {n.id for x in walk_own(g.node) if isinstance(x, ast.Return) and x.value is not None for n in ast.walk(x.value) if isinstance(n, ast.Name)}
            for c2 in walk_own(g.node):
                if isinstance(c2, ast.Call) and isinstance(c2.func, ast.Attribute) and c2.func.attr == "append" and c2.args and isinstance(c2.func.value, ast.Name) and c2.func.value.id in returned \
                        and "warning" not in c2.func.value.id.lower():
                    arg = subst_locals(c2.args[0], g.node, depth=3)
                    sk = message_skeleton(ctx, g.module, arg)
                    out.setdefault(sk, []).append((g, c2))
    return out
