"""Census of advisory-warning sites on the conversion path, keyed by message skeleton (constant pieces verbatim, computed
pieces as `{}`) so that the key survives re-wording of how the message is assembled and moves between functions."""
from __future__ import annotations

import ast

from .astutil import message_skeleton, subst_locals
from .callgraph import CallGraph
from .loader import norm, walk_own


def warning_skeletons(ctx):
    repo = ctx.repo
    cg = CallGraph(repo, ctx.consts.interp)
    reach = cg.reachable(["pyxform.xls2xform:convert"])
    out = {}
    for fi in repo.all_functions():
        if fi.fq not in reach:
            continue
        for c in walk_own(fi.node):
            if not (isinstance(c, ast.Call) and isinstance(c.func, ast.Attribute) and c.func.attr == "append" and c.args):
                continue
            recv = norm(c.func.value)
            if "warning" not in recv.lower():
                continue
            arg = subst_locals(c.args[0], fi.node, depth=3)
            sk = message_skeleton(ctx, fi.module, arg)
            out.setdefault(sk, []).append((fi, c))
    return out
