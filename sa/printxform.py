"""Survey.print_xform_to_file evaluated as a whole (the analyser's own evaluator; the serialisers, the file, the
validators and the language-tag reader are stubs that record what they are given).

    run(ctx, rid, pretty_print=..., validate=..., enketo=..., translations=..., bad=..., odk_warnings=..., reject=None)
        -> Result(outcome, value, written, warnings, calls)

outcome: "return" | "raises <Name>"; value: what the function returned; written: everything written to the output file;
warnings: the caller's list after the call; calls: the order of the recorded events.
"""

from __future__ import annotations

from dataclasses import dataclass, field

from .interp import Obj, Raised, Sym


@dataclass
class Result:
    outcome: str
    value: object = None
    written: list = field(default_factory=list)
    warnings: list = field(default_factory=list)
    calls: list = field(default_factory=list)
    opened: list = field(default_factory=list)


PRETTY = Sym("PRETTY_TEXT", truthy=True, pytype=str)
UGLY = Sym("COMPACT_TEXT", truthy=True, pytype=str)


def run(ctx, rid, pretty_print=True, validate=False, enketo=False, translations=None, bad=(), odk_warnings=(), enketo_warnings=(), reject=None, path="out.xml"):
    scls = ctx.repo.cls("pyxform.survey:Survey")
    pf = scls.methods["print_xform_to_file"]
    res = Result("return")

    def h_open(i, a, k, n):
        res.opened.append((a[0] if a else k.get("file"), k.get("mode", a[1] if len(a) > 1 else "r"), k.get("encoding")))
        res.calls.append("open")
        return Sym("FILE", truthy=True, attrs={"write": lambda i2, a2, k2, n2: (res.written.append(a2[0]), res.calls.append("write"), None)[2],
                                                "close": lambda i2, a2, k2, n2: None})

    def h_check(which, ws):
        def h(i, a, k, n):
            res.calls.append(which)
            if reject == which:
                raise Raised("ODKValidateError" if which == "odk" else "EnketoValidateError", (Sym("DIAGNOSTIC", truthy=True, pytype=str),), n,
                             ("ODKValidateError" if which == "odk" else "EnketoValidateError", "Exception", "BaseException"))
            return list(ws)
        return h

    def h_bad(i, a, k, n):
        res.calls.append("language check")
        return list(bad)

    hooks = {"fnname:_to_pretty_xml": lambda i, a, k, n: (res.calls.append("pretty"), PRETTY)[1], "fnname:_to_ugly_xml": lambda i, a, k, n: (res.calls.append("compact"), UGLY)[1],
             "ext:builtins.open": h_open, "call:odk_validate.check_xform": h_check("odk", odk_warnings), "call:enketo_validate.check_xform": h_check("enketo", enketo_warnings),
             "fnname:get_languages_with_bad_tags": h_bad,
             "ext:os.path.exists": lambda i, a, k, n: True, "ext:os.unlink": lambda i, a, k, n: res.calls.append("unlink"), "ext:os.remove": lambda i, a, k, n: res.calls.append("unlink")}
    it = ctx.interp(rid, hooks=hooks, inline=lambda fi: True)
    it.reset([])
    sv = Obj(scls, {"_translations": translations if translations is not None else {}, "id_string": "form_id", "default_language": "default"}, name="survey")
    warnings = []
    try:
        res.value = it.call_function(pf, [sv], {"path": path, "validate": validate, "pretty_print": pretty_print, "warnings": warnings, "enketo": enketo}, None, pf.node)
    except Raised as e:
        res.outcome = f"raises {e.exc_name}"
    res.warnings = warnings
    return res
