"""Obligations, known-findings matching, evidence files, exit codes."""

from __future__ import annotations

import json
import os
import time

from .loader import AnalysisError

VERIF = os.path.dirname(os.path.dirname(os.path.abspath(__file__)))
KNOWN_FINDINGS = os.path.join(VERIF, "known_findings.json")


class Rule:
    """One rule of one property: collects obligations."""

    def __init__(self, prop: str, rid: str, title: str, floor: int = 1, necessary: str = ""):
        self.prop = prop
        self.rid = rid  # e.g. C01.R1
        self.title = title
        self.floor = floor
        self.necessary = necessary
        self.obligations: list[dict] = []
        self.notes: list[str] = []

    def ok(self, construct: str, what: str, loc: str = "", **extra):
        self.obligations.append({"rule": self.rid, "construct": construct, "what": what, "loc": loc,
                                 "verdict": "discharged", **extra})

    def fail(self, construct: str, what: str, loc: str = "", **extra):
        self.obligations.append({"rule": self.rid, "construct": construct, "what": what, "loc": loc,
                                 "verdict": "FAILED", **extra})

    def check(self, cond: bool, construct: str, what: str, loc: str = "", why_fail: str = "", **extra):
        if cond:
            self.ok(construct, what, loc, **extra)
        else:
            self.fail(construct, what + (f" — {why_fail}" if why_fail else ""), loc, **extra)
        return cond

    def note(self, s: str):
        self.notes.append(s)

    def require_floor(self):
        if any(o["verdict"] == "FAILED" for o in self.obligations):
            return  # a failing obligation is reported as such; dependent obligations may legitimately be skipped
        if len(self.obligations) < self.floor:
            raise AnalysisError(
                self.rid,
                f"instance floor not met: {len(self.obligations)} obligations < floor {self.floor} "
                f"(anchors of this rule were not found; a rule matching too few sites would pass vacuously)",
            )


def load_known():
    if not os.path.exists(KNOWN_FINDINGS):
        return []
    with open(KNOWN_FINDINGS, encoding="utf-8") as f:
        data = json.load(f)
    return data.get("findings", [])


def _match_known(ob, known):
    for k in known:
        if "fixed" in k:
            continue
        if k.get("property") != ob["rule"].split(".")[0]:
            continue
        if k.get("rule") != ob["rule"]:
            continue
        if k.get("construct") == ob["construct"]:
            return k
    return None


def finish(prop: str, tier: str, rules: list[Rule], started: float, explanation: str,
           assumptions: list[str], stats: dict, not_decided: str, out=print) -> int:
    known = load_known()
    for r in rules:
        r.require_floor()
    obligations = [o for r in rules for o in r.obligations]
    failed = [o for o in obligations if o["verdict"] == "FAILED"]
    new_viol, matched = [], []
    for o in failed:
        k = _match_known(o, known)
        if k is not None:
            o["verdict"] = "KNOWN-FINDING"
            o["known_finding"] = k.get("what", "")
            matched.append((o, k))
        else:
            new_viol.append(o)
    # known findings that no longer fire are reported (informational)
    fired = {(k.get("rule"), k.get("construct")) for _, k in matched}
    stale = [k for k in known if "fixed" not in k and k.get("property") == prop
             and (k.get("rule"), k.get("construct")) not in fired]

    for o, k in matched:
        out(f"KNOWN-FINDING: property={prop} {o['rule']} {o['construct']} — {k.get('what', o['what'])}")
    for k in stale:
        out(f"NOTE: listed finding no longer reproduced by the checker: {k.get('rule')} {k.get('construct')}")

    ev_dir = os.environ.get("VERIF_EVIDENCE_DIR") or os.path.join(VERIF, "evidence")
    os.makedirs(ev_dir, exist_ok=True)
    viol_path = os.path.join(ev_dir, f"{prop}.violations.json")
    if new_viol:
        with open(viol_path, "w", encoding="utf-8") as f:
            json.dump({"property": prop, "violations": new_viol}, f, indent=1, default=str)
        for o in new_viol:
            out(f"  {o['loc']} {o['rule']} [{o['construct']}] {o['what']}")
        out(f"VIOLATION property={prop} replay={viol_path}")
    elif os.path.exists(viol_path):
        os.remove(viol_path)

    distinct = len({(o["rule"], o["construct"]) for o in obligations})
    per_rule = {}
    for r in rules:
        per_rule[r.rid] = {
            "title": r.title,
            "necessary_condition": r.necessary,
            "obligations": len(r.obligations),
            "discharged": sum(1 for o in r.obligations if o["verdict"] == "discharged"),
            "known_findings_matched": sum(1 for o in r.obligations if o["verdict"] == "KNOWN-FINDING"),
            "failed": sum(1 for o in r.obligations if o["verdict"] == "FAILED"),
            "floor": r.floor,
            "notes": r.notes,
        }
    samples = []
    for r in rules:
        for o in r.obligations[:3]:
            samples.append({k: v for k, v in o.items() if k in ("rule", "construct", "what", "loc", "verdict")})
    for o in failed[:40]:
        s = {k: v for k, v in o.items() if k in ("rule", "construct", "what", "loc", "verdict", "known_finding")}
        if s not in samples:
            samples.append(s)
    evidence = {
        "property_id": prop,
        "tier": tier,
        "seed": int(os.environ.get("VERIF_SEED", "0") or 0),
        "level": "other",
        "coverage": {
            "explanation": explanation,
            "evaluations": len(obligations),
            "distinct_nontrivial": distinct,
            "rule": "one evaluation = one obligation (rule instance at one construct of /repo's current source); "
                    "distinct = distinct (rule, construct) pairs; every obligation is non-vacuous: it names a "
                    "construct found in the source and a floor per rule guards against rules matching nothing",
            "obligations": len(obligations),
            "discharged": sum(1 for o in obligations if o["verdict"] == "discharged"),
            "known_findings_matched": len(matched),
            "per_rule": per_rule,
            "samples": samples,
            "not_decided": not_decided,
            **stats,
        },
        "assumptions": assumptions,
        "wall_s": round(time.time() - started, 3),
        "violations": len(new_viol),
    }
    with open(os.path.join(ev_dir, f"{prop}.json"), "w", encoding="utf-8") as f:
        json.dump(evidence, f, indent=1, default=str)
    out(f"{prop} [{tier}] rules={len(rules)} obligations={len(obligations)} "
        f"discharged={evidence['coverage']['discharged']} known={len(matched)} violations={len(new_viol)} "
        f"wall={evidence['wall_s']}s")
    return 1 if new_viol else 0
