"""Obligations, known-findings matching, evidence files, exit codes."""

from __future__ import annotations

import json
import os
import re
import time

from .loader import AnalysisError

VERIF = os.path.dirname(os.path.dirname(os.path.abspath(__file__)))
KNOWN_FINDINGS = os.path.join(VERIF, "known_findings.json")


ALL_RULES: list = []  # every Rule constructed in this process, in order (lets the driver keep the verdicts already reached when a later rule cannot be analysed)


class Rule:
    """One rule of one property: collects obligations."""

    def __init__(self, prop: str, rid: str, title: str, floor: int = 1, necessary: str = ""):
        self.prop = prop
        self.rid = rid  # e.g. C01.R1
        self.title = title
        self.floor = floor
        self.necessary = necessary
        self.obligations: list[dict] = []
        self.notes: list[str] = []
        ALL_RULES.append(self)

    def ok(self, construct: str, what: str, loc: str = "", **extra):
        self.obligations.append({"rule": self.rid, "construct": construct, "what": what, "loc": loc,
                                 "verdict": "discharged", **extra})

    def fail(self, construct: str, what: str, loc: str = "", **extra):
        self.obligations.append({"rule": self.rid, "construct": construct, "what": what, "loc": loc,
                                 "verdict": "FAILED", **extra})

    def check(self, cond: bool, construct: str, what: str, loc: str = "", why_fail: str = "", **extra):
        if cond:
            self.ok(construct, what, loc, **extra)
        else:
            self.fail(construct, what + (f" — {why_fail}" if why_fail else ""), loc, **extra)
        return cond

    def note(self, s: str):
        self.notes.append(s)

    def require_floor(self):
        if any(o["verdict"] == "FAILED" for o in self.obligations):
            return  # a failing obligation is reported as such; dependent obligations may legitimately be skipped
        if len(self.obligations) < self.floor:
            raise AnalysisError(
                self.rid,
                f"instance floor not met: {len(self.obligations)} obligations < floor {self.floor} "
                f"(anchors of this rule were not found; a rule matching too few sites would pass vacuously)",
            )


def load_known():
    if not os.path.exists(KNOWN_FINDINGS):
        return []
    with open(KNOWN_FINDINGS, encoding="utf-8") as f:
        data = json.load(f)
    return data.get("findings", [])


_IDENT = re.compile(r"[A-Za-z_][A-Za-z0-9_]*|[^A-Za-z_]+")
STRUCTURAL_NAMES: set = set()  # filled by Context: function / class / module / attribute names of the analysed repo


def alpha_equivalent(a: str, b: str) -> bool:
    """The two construct texts differ only by a consistent one-to-one renaming of identifiers that are not names of
    functions, classes, modules or attributes of the analysed package (i.e. of local variables)."""
    ta, tb = _IDENT.findall(a), _IDENT.findall(b)
    if len(ta) != len(tb):
        return False
    fwd, bwd = {}, {}
    for x, y in zip(ta, tb):
        if x == y:
            if fwd.get(x, x) != x or bwd.get(y, y) != y:
                return False
            fwd[x] = x
            bwd[y] = y
            continue
        if not (x[0].isalpha() or x[0] == "_") or not (y[0].isalpha() or y[0] == "_"):
            return False
        if x in STRUCTURAL_NAMES or y in STRUCTURAL_NAMES:
            return False
        if fwd.setdefault(x, y) != y or bwd.setdefault(y, x) != x:
            return False
    return True


def _head(construct: str):
    """`module:function:callee(first-argument` of a call-site construct, or None when the text has no such shape."""
    i = construct.find("(")
    if i < 0 or construct.count(":") < 2:
        return None
    j = construct.find(",", i)
    h = construct[: j if j > 0 else len(construct)]
    return h if len(h) >= 25 else None


def _match_known(ob, known):
    for k in known:
        if "fixed" in k:
            continue
        if k.get("property") != ob["rule"].split(".")[0]:
            continue
        if k.get("rule") != ob["rule"]:
            continue
        if k.get("construct") == ob["construct"]:
            return k
    return None


def finish(prop: str, tier: str, rules: list[Rule], started: float, explanation: str,
           assumptions: list[str], stats: dict, not_decided: str, out=print, partial: str = "") -> int:
    """`partial`: the analysis stopped early with this error; the obligations evaluated before it are still what they are.
    A failed one among them is reported (exit 1); without one the run stays an ANALYSIS-ERROR (exit 2)."""
    known = load_known()
    if not partial:
        for r in rules:
            r.require_floor()
    obligations = [o for r in rules for o in r.obligations]
    failed = [o for o in obligations if o["verdict"] == "FAILED"]
    new_viol, matched = [], []
    for o in failed:
        k = _match_known(o, known)
        if k is not None:
            o["verdict"] = "KNOWN-FINDING"
            o["known_finding"] = k.get("what", "")
            matched.append((o, k))
        else:
            new_viol.append(o)
    # a recorded finding whose construct text changed only by a renaming of locals is still that finding: each
    # recorded entry that did not fire verbatim may absorb exactly one new construct of the same rule
    fired = {(k.get("rule"), k.get("construct")) for _, k in matched}
    unfired = [k for k in known if "fixed" not in k and k.get("property") == prop and (k.get("rule"), k.get("construct")) not in fired]
    if unfired and new_viol:
        by_construct = {}
        for o in new_viol:
            by_construct.setdefault((o["rule"], o["construct"]), []).append(o)
        used = set()
        for (rule, construct), obs in by_construct.items():
            cands = [i for i, k in enumerate(unfired) if i not in used and k.get("rule") == rule and alpha_equivalent(k.get("construct", ""), construct)]
            if not cands and "{}" in construct:
                # a message skeleton in which a piece that used to be literal is now computed (two recorded messages folded
                # into one parametrised message): the recorded skeletons it generalises are these findings
                pat = re.compile(".+".join(re.escape(part) for part in construct.split("{}")))
                gen = [i for i, k in enumerate(unfired) if i not in used and k.get("rule") == rule 
                       and pat.fullmatch(k.get("construct", ""))]
                if gen:
                    used.update(gen)
                    k = unfired[gen[0]]
                    for o in obs:
                        o["verdict"] = "KNOWN-FINDING"
                        o["known_finding"] = k.get("what", "")
                        o["matched_generalising"] = [unfired[i].get("construct") for i in gen]
                        matched.append((o, k))
                    continue
            if not cands:
                # same rule, same function, same call head (callee and first argument): the call site was reworded
                h = _head(construct)
                if h is not None:
                    cands = [i for i, k in enumerate(unfired) if i not in used and k.get("rule") == rule and _head(k.get("construct", "")) == h]
                    others = [c for (r2_, c) in by_construct if r2_ == rule and c != construct and _head(c) == h]
                    if others:
                        cands = []  # ambiguous: several new constructs share the head
            if len(cands) == 1:
                k = unfired[cands[0]]
                used.add(cands[0])
                for o in obs:
                    o["verdict"] = "KNOWN-FINDING"
                    o["known_finding"] = k.get("what", "")
                    o["matched_modulo_local_names"] = k.get("construct")
                    matched.append((o, k))
        new_viol = [o for o in new_viol if o["verdict"] == "FAILED"]
    # known findings that no longer fire are reported (informational)
    fired = {(k.get("rule"), k.get("construct")) for _, k in matched}
    stale = [k for k in known if "fixed" not in k and k.get("property") == prop
             and (k.get("rule"), k.get("construct")) not in fired]

    for o, k in matched:
        out(f"KNOWN-FINDING: property={prop} {o['rule']} {o['construct']} — {k.get('what', o['what'])}")
    for k in stale:
        out(f"NOTE: listed finding no longer reproduced by the checker: {k.get('rule')} {k.get('construct')}")

    ev_dir = os.environ.get("VERIF_EVIDENCE_DIR") or os.path.join(VERIF, "evidence")
    os.makedirs(ev_dir, exist_ok=True)
    viol_path = os.path.join(ev_dir, f"{prop}.violations.json")
    if new_viol:
        with open(viol_path, "w", encoding="utf-8") as f:
            json.dump({"property": prop, "violations": new_viol}, f, indent=1, default=str)
        for o in new_viol:
            out(f"  {o['loc']} {o['rule']} [{o['construct']}] {o['what']}")
        out(f"VIOLATION property={prop} replay={viol_path}")
    elif os.path.exists(viol_path):
        os.remove(viol_path)

    distinct = len({(o["rule"], o["construct"]) for o in obligations})
    per_rule = {}
    for r in rules:
        per_rule[r.rid] = {
            "title": r.title,
            "necessary_condition": r.necessary,
            "obligations": len(r.obligations),
            "discharged": sum(1 for o in r.obligations if o["verdict"] == "discharged"),
            "known_findings_matched": sum(1 for o in r.obligations if o["verdict"] == "KNOWN-FINDING"),
            "failed": sum(1 for o in r.obligations if o["verdict"] == "FAILED"),
            "floor": r.floor,
            "notes": r.notes,
        }
    samples = []
    for r in rules:
        for o in r.obligations[:3]:
            samples.append({k: v for k, v in o.items() if k in ("rule", "construct", "what", "loc", "verdict")})
    for o in failed[:40]:
        s = {k: v for k, v in o.items() if k in ("rule", "construct", "what", "loc", "verdict", "known_finding")}
        if s not in samples:
            samples.append(s)
    evidence = {
        "property_id": prop,
        "tier": tier,
        "seed": int(os.environ.get("VERIF_SEED", "0") or 0),
        "level": "other",
        "coverage": {
            "explanation": explanation,
            "evaluations": len(obligations),
            "distinct_nontrivial": distinct,
            "rule": "one evaluation = one obligation (rule instance at one construct of /repo's current source); "
                    "distinct = distinct (rule, construct) pairs; every obligation is non-vacuous: it names a "
                    "construct found in the source and a floor per rule guards against rules matching nothing",
            "obligations": len(obligations),
            "discharged": sum(1 for o in obligations if o["verdict"] == "discharged"),
            "known_findings_matched": len(matched),
            "per_rule": per_rule,
            "samples": samples,
            "not_decided": not_decided,
            **stats,
        },
        "assumptions": assumptions,
        "wall_s": round(time.time() - started, 3),
        "violations": len(new_viol),
    }
    if partial:
        evidence["coverage"]["analysis_stopped_early"] = partial
    with open(os.path.join(ev_dir, f"{prop}.json"), "w", encoding="utf-8") as f:
        json.dump(evidence, f, indent=1, default=str)
    out(f"{prop} [{tier}] rules={len(rules)} obligations={len(obligations)} "
        f"discharged={evidence['coverage']['discharged']} known={len(matched)} violations={len(new_viol)} "
        f"wall={evidence['wall_s']}s")
    if partial:
        return 1 if new_viol else 2
    return 1 if new_viol else 0
