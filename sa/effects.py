"""Write-effect and unordered-iteration analyses."""

from __future__ import annotations

import ast

from .astutil import call_name
from .loader import FuncInfo, Module, Repo, ancestors, norm, parent, walk_own

MUTATORS = {"append", "extend", "insert", "pop", "remove", "clear", "update", "setdefault", "add", "discard", "sort",
            "reverse", "popitem", "appendleft", "__setitem__", "__delitem__"}


def root_name(expr: ast.AST) -> str | None:
    """x, x.a, x[i], x.a[i].b -> 'x'."""
    while isinstance(expr, ast.Attribute | ast.Subscript):
        expr = expr.value
    return expr.id if isinstance(expr, ast.Name) else None


def writes_in(fn_node: ast.AST):
    """Yield (kind, target_expr, node): kind in store/aug/del/mutator for every
    write to a *non-plain-name* location or mutator call in the function."""
    for x in walk_own(fn_node):
        if isinstance(x, ast.Assign):
            for t in x.targets:
                for tt in _flatten_targets(t):
                    if isinstance(tt, ast.Attribute | ast.Subscript):
                        yield ("store", tt, x)
        elif isinstance(x, ast.AnnAssign) and x.value is not None:
            if isinstance(x.target, ast.Attribute | ast.Subscript):
                yield ("store", x.target, x)
        elif isinstance(x, ast.AugAssign):
            if isinstance(x.target, ast.Attribute | ast.Subscript):
                yield ("aug", x.target, x)
            else:
                yield ("augname", x.target, x)
        elif isinstance(x, ast.Delete):
            for t in x.targets:
                if isinstance(t, ast.Attribute | ast.Subscript):
                    yield ("del", t, x)
        elif isinstance(x, ast.Call) and isinstance(x.func, ast.Attribute) and x.func.attr in MUTATORS:
            yield ("mutator", x.func.value, x)


def _flatten_targets(t):
    if isinstance(t, ast.Tuple | ast.List):
        for e in t.elts:
            yield from _flatten_targets(e)
    elif isinstance(t, ast.Starred):
        yield from _flatten_targets(t.value)
    else:
        yield t


IMMUTABLE_EXTERNAL_CTORS = {"compile", "getLogger", "Lock", "RLock", "abspath", "join", "dirname", "MappingProxyType", "maketrans", "object", "Path", "PurePath", "frozenset", "tuple",
                            "TypeVar", "namedtuple", "Fraction", "Decimal", "PurePosixPath", "PureWindowsPath", "Enum", "Pattern", "str", "int", "float", "bool", "bytes", "realpath", "normpath", "basename", "getenv", "local"}
STATEFUL_EXTERNAL_FACTORIES = {"open", "iter", "count", "cycle", "bytearray", "array", "reader", "writer", "compile_parser", "make_parser", "mkstemp", "mkdtemp", "socket"}
READ_ONLY_METHODS = {"getvalue", "get", "items", "keys", "values", "copy", "index", "count", "__contains__", "__len__"}


def module_mutables(repo: Repo):
    """Module-level names bound to (syntactically) mutable objects:
    (module, name, kind, stmt)."""
    out = []
    for m in repo.modules.values():
        for name, stmts in m.assigns.items():
            for st in stmts:
                v = getattr(st, "value", None)
                kind = None
                if isinstance(v, ast.Dict | ast.DictComp):
                    kind = "dict"
                elif isinstance(v, ast.List | ast.ListComp):
                    kind = "list"
                elif isinstance(v, ast.Set | ast.SetComp):
                    kind = "set"
                elif isinstance(v, ast.Call):
                    cn = call_name(v)
                    if cn in ("dict", "list", "set", "defaultdict", "OrderedDict", "deque", "Counter"):
                        kind = cn
                    elif cn in ("MappingProxyType", "frozenset", "tuple", "compile", "getLogger", "TypeVar", "namedtuple", "maketrans"):
                        kind = None
                    elif cn in ("Scanner",):
                        kind = "instance:re.Scanner"
                    else:
                        r = repo.resolve_dotted(m, v.func)
                        if r and r[0] == "class":
                            kind = f"instance:{r[1].name}"
                        elif r and r[0] == "func":
                            kind = f"result:{r[1].name}"
                        elif cn not in IMMUTABLE_EXTERNAL_CTORS and (cn[:1].isupper() or cn in STATEFUL_EXTERNAL_FACTORIES):
                            kind = f"external:{cn}"  # an object of a library class (StringIO, a parser, a buffer ...): stateful until shown otherwise
                if kind:
                    out.append((m, name, kind, st))
    return out


def local_aliases_of_global(repo: Repo, fi: FuncInfo, gmod: Module, gname: str) -> set[str]:
    """Local names in fi that may alias module-level object gmod.gname
    (direct reference, x = G, x = G.get(..)/G[..] sub-objects)."""
    def refers(expr) -> bool:
        for n in ast.walk(expr):
            if isinstance(n, ast.Name) and isinstance(n.ctx, ast.Load):
                r = repo.resolve_name(fi.module, n.id)
                if r and r[0] == "const" and r[1] is gmod and r[2] == gname and not _shadowed(fi, n.id):
                    return True
            if isinstance(n, ast.Attribute) and n.attr == gname:
                r = repo.resolve_dotted(fi.module, n)
                if r and r[0] == "const" and r[1] is gmod and r[2] == gname:
                    return True
        return False

    aliases = set()
    for x in walk_own(fi.node):
        if isinstance(x, ast.Assign) and len(x.targets) == 1 and isinstance(x.targets[0], ast.Name):
            v = x.value
            # strip non-copying accessors
            core = v
            while isinstance(core, ast.Subscript) or (isinstance(core, ast.Call) and call_name(core) in ("get",) and isinstance(core.func, ast.Attribute)):
                core = core.value if isinstance(core, ast.Subscript) else core.func.value
            if isinstance(core, ast.Name | ast.Attribute) and refers(core):
                aliases.add(x.targets[0].id)
    return aliases


_STORES: dict[int, set[str]] = {}


def _shadowed(fi: FuncInfo, name: str) -> bool:
    key = id(fi.node)
    if key not in _STORES:
        a = fi.node.args
        names = {x.arg for x in [*a.posonlyargs, *a.args, *a.kwonlyargs]}
        if a.vararg:
            names.add(a.vararg.arg)
        if a.kwarg:
            names.add(a.kwarg.arg)
        for x in walk_own(fi.node):
            if isinstance(x, ast.Name) and isinstance(x.ctx, ast.Store):
                names.add(x.id)
        _STORES[key] = names
    return name in _STORES[key]


def _shadowed_slow(fi: FuncInfo, name: str) -> bool:
    a = fi.node.args
    params = {x.arg for x in [*a.posonlyargs, *a.args, *a.kwonlyargs]}
    if a.vararg:
        params.add(a.vararg.arg)
    if a.kwarg:
        params.add(a.kwarg.arg)
    if name in params:
        return True
    for x in walk_own(fi.node):
        if isinstance(x, ast.Name) and x.id == name and isinstance(x.ctx, ast.Store):
            return True
    return False


def refers_to_global(repo: Repo, fi: FuncInfo, expr: ast.AST, gmod: Module, gname: str) -> bool:
    rn = expr
    while isinstance(rn, ast.Subscript):
        rn = rn.value
    while isinstance(rn, ast.Attribute):
        r = repo.resolve_dotted(fi.module, rn)
        if r and r[0] == "const" and r[1] is gmod and r[2] == gname:
            return True
        rn = rn.value
        while isinstance(rn, ast.Subscript):
            rn = rn.value
    if isinstance(rn, ast.Name) and not _shadowed(fi, rn.id):
        r = repo.resolve_name(fi.module, rn.id)
        return bool(r and r[0] == "const" and r[1] is gmod and r[2] == gname)
    return False


def param_mutation_summary(repo: Repo):
    """fq -> set of parameter names the function may mutate in place (direct
    writes, plus transitively through calls resolved by name)."""
    direct: dict[str, set[str]] = {}
    funcs = list(repo.all_functions())
    for f in funcs:
        a = f.node.args
        params = [x.arg for x in [*a.posonlyargs, *a.args, *a.kwonlyargs]]
        mut = set()
        for kind, tgt, node in writes_in(f.node):
            if kind == "augname":
                continue
            rn = root_name(tgt)
            if rn in params and not (f.name == "__init__" and rn == params[0]):
                mut.add(rn)
        direct[f.fq] = mut
    by_name: dict[str, list[FuncInfo]] = {}
    for f in funcs:
        by_name.setdefault(f.name, []).append(f)
    changed = True
    while changed:
        changed = False
        for f in funcs:
            a = f.node.args
            params = [x.arg for x in [*a.posonlyargs, *a.args, *a.kwonlyargs]]
            for c in walk_own(f.node):
                if not isinstance(c, ast.Call):
                    continue
                for g in by_name.get(call_name(c), [])[:4]:
                    ga = g.node.args
                    gparams = [x.arg for x in [*ga.posonlyargs, *ga.args]]
                    off = 1 if g.cls is not None and gparams and gparams[0] in ("self", "cls") and isinstance(c.func, ast.Attribute) else 0
                    for i, arg in enumerate(c.args):
                        if isinstance(arg, ast.Name) and arg.id in params and i + off < len(gparams) and gparams[i + off] in direct[g.fq]:
                            if arg.id not in direct[f.fq]:
                                direct[f.fq].add(arg.id)
                                changed = True
                    for k in c.keywords:
                        if k.arg and isinstance(k.value, ast.Name) and k.value.id in params and k.arg in direct[g.fq]:
                            if k.value.id not in direct[f.fq]:
                                direct[f.fq].add(k.value.id)
                                changed = True
    return direct


# ------------------------------------------------------------- set iteration
ORDER_FREE_CONSUMERS = {"any", "all", "len", "min", "max", "sum", "set", "frozenset", "sorted", "isdisjoint", "issubset",
                        "issuperset", "union", "intersection", "difference", "bool"}


def set_typed_names(fi: FuncInfo) -> dict[str, ast.AST]:
    """Local names that (may) hold a set: name -> defining expr."""
    out: dict[str, ast.AST] = {}

    def is_set_expr(v) -> bool:
        if isinstance(v, ast.Set | ast.SetComp):
            return True
        if isinstance(v, ast.Call):
            cn = call_name(v)
            if isinstance(v.func, ast.Name) and cn in ("set", "frozenset"):
                return True
            if cn in ("union", "intersection", "difference", "symmetric_difference") and isinstance(v.func, ast.Attribute):
                return is_set_expr(v.func.value) or any(is_set_expr(a) for a in v.args)
            if cn == "get" and len(v.args) == 2 and is_set_expr(v.args[1]):
                return True
        if isinstance(v, ast.BinOp) and isinstance(v.op, ast.BitOr | ast.BitAnd | ast.Sub | ast.BitXor):
            def is_view(e):
                return isinstance(e, ast.Call) and isinstance(e.func, ast.Attribute) and e.func.attr in ("keys", "items") and not e.args
            # set algebra on dict views (`d.keys() - e.keys()`) yields a set
            return is_set_expr(v.left) or is_set_expr(v.right) or is_view(v.left) or is_view(v.right)
        if isinstance(v, ast.Name) and v.id in out:
            return True
        return False

    changed = True
    while changed:
        changed = False
        for x in walk_own(fi.node):
            tgt = val = None
            if isinstance(x, ast.Assign) and len(x.targets) == 1:
                tgt, val = x.targets[0], x.value
            elif isinstance(x, ast.AnnAssign) and x.value is not None:
                tgt, val = x.target, x.value
            if isinstance(tgt, ast.Name) and tgt.id not in out and is_set_expr(val):
                out[tgt.id] = val
                changed = True
            # d[k] = d.get(k, set()).union(...)  -> values of d are sets
            if isinstance(tgt, ast.Subscript) and isinstance(tgt.value, ast.Name) and is_set_expr(val):
                key = f"{tgt.value.id}[]"
                if key not in out:
                    out[key] = val
                    changed = True
            # for k, v in d.items() where d[] is set-valued
            if isinstance(x, ast.For) and isinstance(x.iter, ast.Call) and call_name(x.iter) == "items" and isinstance(x.iter.func.value, ast.Name) \
                    and f"{x.iter.func.value.id}[]" in out and isinstance(x.target, ast.Tuple) and len(x.target.elts) == 2 \
                    and isinstance(x.target.elts[1], ast.Name) and x.target.elts[1].id not in out:
                out[x.target.elts[1].id] = out[f"{x.iter.func.value.id}[]"]
                changed = True
    out["__is_set_expr__"] = is_set_expr  # type: ignore[assignment]
    return out


def set_iterations(repo: Repo, fi: FuncInfo, module_sets: set[str]):
    """Yield (iter_expr, consumer_node, how) for each iteration over a
    set-typed expression in fi."""
    names = set_typed_names(fi)
    is_set_expr = names.pop("__is_set_expr__")
    # a nested function reads the sets of the functions around it (closure variables), unless it rebinds the name itself
    own_bound = {n.id for x in walk_own(fi.node) for n in ast.walk(x) if isinstance(n, ast.Name) and isinstance(n.ctx, ast.Store)}
    a0 = fi.node.args
    own_bound |= {p_.arg for p_ in [*a0.posonlyargs, *a0.args, *a0.kwonlyargs]}
    outer = fi.parent
    while outer is not None:
        on = set_typed_names(outer)
        on.pop("__is_set_expr__", None)
        for k_, v_ in on.items():
            if k_ not in names and k_.rstrip("[]") not in own_bound:
                names[k_] = v_
        outer = outer.parent

    def is_set(v) -> bool:
        if is_set_expr(v):
            return True
        if isinstance(v, ast.Name) and v.id in module_sets and not _shadowed(fi, v.id):
            r = repo.resolve_name(fi.module, v.id)
            return bool(r and r[0] == "const")
        if isinstance(v, ast.Attribute):
            r = repo.resolve_dotted(fi.module, v)
            return bool(r and r[0] == "const" and f"{r[1].name}.{r[2]}" in module_sets)
        if isinstance(v, ast.Attribute) and isinstance(v.value, ast.Name) and v.value.id == "self":
            return False
        return False

    for x in walk_own(fi.node):
        if isinstance(x, ast.For) and is_set(x.iter):
            yield x.iter, x, "for"
        elif isinstance(x, ast.comprehension) and is_set(x.iter):
            comp = parent(x)
            yield x.iter, comp, "comprehension"
        elif isinstance(x, ast.Call):
            cn = call_name(x)
            if cn in ("join", "list", "tuple", "writerow", "extend", "enumerate", "iter", "next", "zip", "chain") and x.args and any(is_set(a) for a in x.args):
                yield next(a for a in x.args if is_set(a)), x, f"call:{cn}"
        elif isinstance(x, ast.Starred) and is_set(x.value):
            yield x.value, x, "star"


def comprehension_consumer(comp: ast.AST):
    """How the result of a comprehension over a set is consumed: returns
    'order-free' if wrapped directly by an order-insensitive consumer or is
    itself a set/dict-keyed-by-element comprehension used for membership."""
    p = parent(comp)
    if isinstance(comp, ast.SetComp):
        return "order-free"
    if isinstance(p, ast.Call) and call_name(p) in ORDER_FREE_CONSUMERS:
        return "order-free"
    return "ordered"
