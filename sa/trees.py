"""Small concrete element trees (attribute bags with the real classes) on which single methods of pyxform are
evaluated by the analyser's evaluator.  A tree is given as nested tuples:
    ("data", [("q", "a"), ("g", "grp", [("q", "b")]), ("r", "rep", [("q", "c")])])
kinds: q = question (InputQuestion), g = group, r = repeat; an optional dict as last member adds attributes."""

from __future__ import annotations

from .interp import Obj

_CLS = {"q": "pyxform.question:InputQuestion", "g": "pyxform.section:GroupedSection", "r": "pyxform.section:RepeatingSection", "s": "pyxform.survey:Survey"}


def _slots(ctx, ci):
    """Every slot of the class: the folded `__slots__` of each class of the MRO, plus get_slot_names()."""
    import ast

    from .astutil import const_str
    from .checks.c02 import _slots as s
    out = list(s(ctx, ci))
    for c in ctx.consts.interp.mro(ci):
        for x in c.node.body:
            if isinstance(x, ast.Assign) and any(isinstance(t, ast.Name) and t.id == "__slots__" for t in x.targets):
                ok, v = const_str(ctx, c.module, x.value)
                if ok:
                    for n in ([v] if isinstance(v, str) else v):
                        if n not in out:
                            out.append(n)
    return tuple(out)


def mk(ctx, ci, name, **attrs):
    slots = _slots(ctx, ci)
    a = {s: None for s in slots}
    a.update(attrs)
    a["name"] = name
    return Obj(ci, a, name=name, slots=slots)


def build(ctx, spec, survey_attrs=None):
    """-> (survey Obj, {name: Obj}) ; element names must be unique in the spec unless they are meant to clash (then the
    dict holds the last one and `all` lists every element)."""
    repo = ctx.repo
    by_name = {}
    everything = []

    def rec(node, parent):
        kind, name = node[0], node[1]
        extra = node[-1] if isinstance(node[-1], dict) else {}
        kids = node[2] if len(node) > 2 and isinstance(node[2], list) else None
        if kind == "q":
            qa = {"type": "text", "bind": {"type": "string"}, "label": name.upper(), "control": {"tag": "input"}}
            qa.update(extra)
            el = mk(ctx, repo.cls(_CLS["q"]), name, **qa)
        else:
            el = mk(ctx, repo.cls(_CLS[kind]), name, type={"r": "repeat", "s": "survey"}.get(kind, "group"), label=extra.get("label", name.upper()), children=[], **{k: v for k, v in extra.items() if k != "label"})
        el.attrs["parent"] = parent
        by_name[name] = el
        everything.append(el)
        if kids is not None:
            el.attrs["children"] = [rec(k, el) for k in kids]
        return el

    sname, kids = spec[0], spec[1]
    scls = repo.cls("pyxform.survey:Survey")
    survey = mk(ctx, scls, sname, type="survey", children=[], setvalues_by_triggering_ref={}, setgeopoint_by_triggering_ref={}, **(survey_attrs or {}))
    survey.attrs["children"] = [rec(k, survey) for k in kids]
    survey.attrs["parent"] = None
    by_name[sname] = survey
    return survey, by_name, everything
