"""Discrimination battery: the checker must fire on seeded breaks of the CURRENT tree and stay silent on benign
variants.  A battery failure is a malfunction of the checker (ANALYSIS-ERROR), never evidence about pyxform."""

from __future__ import annotations

import importlib.util
import json
import os
import shutil
import subprocess
import sys
import tempfile
from concurrent.futures import ThreadPoolExecutor

from .loader import AnalysisError

VERIF = os.path.dirname(os.path.dirname(os.path.abspath(__file__)))


def _variants():
    spec = importlib.util.spec_from_file_location("variants", os.path.join(VERIF, "selftest", "variants.py"))
    m = importlib.util.module_from_spec(spec)
    spec.loader.exec_module(m)
    return m


def _copy(repo: str) -> str:
    d = tempfile.mkdtemp(prefix="pyxform-sa-")
    shutil.copytree(os.path.join(repo, "pyxform"), os.path.join(d, "pyxform"), ignore=shutil.ignore_patterns("__pycache__", "*.jar"))
    return d


def _apply(d: str, edits) -> bool:
    for rel, old, new in edits:
        p = os.path.join(d, rel)
        if not os.path.exists(p):
            return False
        s = open(p, encoding="utf-8").read()
        if old not in s:
            return False
        s = s.replace(old, new, 1)
        try:
            compile(s, p, "exec")
        except SyntaxError:
            return False
        open(p, "w", encoding="utf-8").write(s)
    return True


def _run_check(prop: str, d: str):
    ev = os.path.join(d, "_evidence")
    env = dict(os.environ, VERIF_EVIDENCE_DIR=ev, VERIF_TIER="quick")
    r = subprocess.run([sys.executable, "-B", "-m", "sa.run", prop, "--tier", "quick", "--repo", d], cwd=VERIF, env=env, capture_output=True, text=True, timeout=600)
    rules = set()
    vp = os.path.join(ev, f"{prop}.violations.json")
    if os.path.exists(vp):
        for o in json.load(open(vp))["violations"]:
            rules.add(o["rule"])
    return r.returncode, rules, r.stdout[-400:]


def run_seeded(v, repo):
    d = _copy(repo)
    try:
        if not _apply(d, v["edits"]):
            return {"variant": v["name"], "status": "not-applicable"}
        code, rules, tail = _run_check(v["property"], d)
        ok = code == 1 and any(r.startswith(v["rule"]) for r in rules)
        return {"variant": v["name"], "status": "caught" if ok else ("caught-other-rule" if code == 1 else "MISSED"), "exit": code, "rules": sorted(rules), "expected": v["rule"],
                **({"tail": tail} if code != 1 else {})}
    finally:
        shutil.rmtree(d, ignore_errors=True)


def run_benign(b, prop, repo):
    d = _copy(repo)
    try:
        if b["kind"] == "ruff":
            ruff = "/venv/bin/ruff"
            if not os.path.exists(ruff):
                return {"variant": b["name"], "status": "not-applicable"}
            subprocess.run([ruff, *b["args"], "-q", os.path.join(d, "pyxform")], capture_output=True)
        elif not _apply(d, b["edits"]):
            return {"variant": b["name"], "status": "not-applicable"}
        code, rules, tail = _run_check(prop, d)
        return {"variant": b["name"], "status": "silent" if code == 0 else "NOISY", "exit": code, "rules": sorted(rules), **({"tail": tail} if code != 0 else {})}
    finally:
        shutil.rmtree(d, ignore_errors=True)


def battery(prop: str, repo: str, jobs: int = 16) -> dict:
    m = _variants()
    seeded = [v for v in m.S if v["property"] == prop]
    with ThreadPoolExecutor(max_workers=jobs) as ex:
        s_res = list(ex.map(lambda v: run_seeded(v, repo), seeded))
        b_res = list(ex.map(lambda b: run_benign(b, prop, repo), m.B))
    missed = [r for r in s_res if r["status"] == "MISSED"]
    noisy = [r for r in b_res if r["status"] == "NOISY"]
    out = {"seeded": s_res, "benign": b_res, "seeded_caught": sum(1 for r in s_res if r["status"].startswith("caught")), "seeded_total": len(s_res),
           "benign_silent": sum(1 for r in b_res if r["status"] == "silent"), "benign_total": len(b_res)}
    if missed or noisy:
        raise AnalysisError(f"{prop}.battery", f"discrimination battery failed: missed={[r['variant'] for r in missed]} noisy={[r['variant'] for r in noisy]}")
    return out
