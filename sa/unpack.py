"""Tuple-unpacking of a call result whose class cannot be iterated.

`a, b, c = f(...)` raises TypeError when f returns an instance of a package class that defines neither __iter__ nor
__getitem__ (and is not a tuple / NamedTuple / dataclass-with-iter).  The callee's result class is resolved through
return expressions: a constructor call of a package class, or a call of another package function (followed to a
bounded depth).  Only results that resolve to exactly one package class on every return are judged.
"""

from __future__ import annotations

import ast

from .astutil import call_name
from .loader import walk_own


def _result_classes(repo, interp, fi, depth=0, seen=None):
    """-> {name: ClassInfo} | None (None = some return is not a package-class construction)."""
    seen = seen or set()
    if fi.fq in seen or depth > 4:
        return None
    seen = seen | {fi.fq}
    out = {}
    rets = [x for x in walk_own(fi.node) if isinstance(x, ast.Return)]
    if not rets:
        return None
    for r in rets:
        v = r.value
        if not isinstance(v, ast.Call):
            return None
        res = repo.resolve_dotted(fi.module, v.func) if isinstance(v.func, ast.Name | ast.Attribute) else None
        if res and res[0] == "class":
            out[res[1].name] = res[1]
        elif res and res[0] == "func":
            sub = _result_classes(repo, interp, res[1], depth + 1, seen)
            if sub is None:
                return None
            out.update(sub)
        else:
            return None
    return out


def _iterable(interp, ci) -> bool:
    for c in interp.mro(ci):
        if "__iter__" in c.methods or "__getitem__" in c.methods:
            return True
    if any(b.split(".")[-1] in ("tuple", "list", "NamedTuple", "dict", "Mapping", "Sequence", "str", "Enum") for b in interp.ext_bases(ci)):
        return True
    return False


def unpack_sites(ctx, rid):
    """Yield (fi, assign stmt, callee FuncInfo, classes) for every tuple-unpacking assignment from a package call."""
    repo = ctx.repo
    interp = ctx.consts.interp
    for fi in repo.all_functions():
        for st in walk_own(fi.node):
            if not (isinstance(st, ast.Assign) and len(st.targets) == 1 and isinstance(st.targets[0], ast.Tuple | ast.List) and isinstance(st.value, ast.Call)):
                continue
            c = st.value
            res = repo.resolve_dotted(fi.module, c.func) if isinstance(c.func, ast.Name | ast.Attribute) else None
            if not res or res[0] != "func":
                continue
            classes = _result_classes(repo, interp, res[1])
            if not classes:
                continue
            yield fi, st, res[1], classes


def unpack_obligations(ctx, rule, rid, only=None, label="unpack"):
    interp = ctx.consts.interp
    n = 0
    for fi, st, callee, classes in unpack_sites(ctx, rid):
        if only is not None and not only(fi):
            continue
        n += 1
        bad = sorted(c.name for c in classes.values() if not _iterable(interp, c))
        rule.check(not bad, f"{label} {fi.fq}:{', '.join(x.id for x in ast.walk(st.targets[0]) if isinstance(x, ast.Name))[:40]} = {call_name(st.value)}()",
                   "a call result that is unpacked into several names is iterable", fi.loc(st),
                   why_fail=f"{callee.qualname}() returns {', '.join(bad)}, which has no __iter__/__getitem__: the unpacking raises TypeError whenever this line runs")
    return n
