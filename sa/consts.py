"""Constant folding of module-level tables, cross-module, via the abstract
evaluator restricted to pure expressions."""

from __future__ import annotations

from .interp import _MISSING, Interp
from .loader import AnalysisError, Repo


class Consts:
    def __init__(self, repo: Repo):
        self.repo = repo
        self.interp = Interp(repo, rule="consts")

    def get(self, modname: str, name: str, rule: str = "consts"):
        m = self.repo.module(modname)
        self.interp.rule = rule
        if name not in m.assigns and self.repo.resolve_name(m, name) is None:
            raise AnalysisError(rule, f"anchor constant {modname}.{name} not found")
        v = self.interp.module_global(m, name)
        if v is _MISSING:
            raise AnalysisError(rule, f"anchor constant {modname}.{name} not found")
        return v

    def try_get(self, modname: str, name: str):
        try:
            return self.get(modname, name)
        except AnalysisError:
            return None
