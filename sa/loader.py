"""Repository loader: parses every module of the analysed package, indexes
functions / classes / imports.  Pure `ast`; never imports the analysed code."""

from __future__ import annotations

import ast
import hashlib
import os
from dataclasses import dataclass, field


class AnalysisError(Exception):
    """The analysis itself cannot proceed (vanished anchor, unsupported syntax,
    instance floor not met).  Never a verdict about the analysed code."""

    def __init__(self, rule: str, reason: str):
        super().__init__(f"rule={rule} reason={reason}")
        self.rule = rule
        self.reason = reason


@dataclass
class FuncInfo:
    module: "Module"
    qualname: str  # e.g. Survey.xml_model.model_children_generator
    node: ast.FunctionDef
    cls: "ClassInfo | None" = None
    parent: "FuncInfo | None" = None

    @property
    def fq(self) -> str:
        return f"{self.module.name}:{self.qualname}"

    @property
    def name(self) -> str:
        return self.node.name

    def loc(self, node: ast.AST | None = None) -> str:
        n = node if node is not None else self.node
        origin = getattr(n, "_sa_origin", None)
        if origin is not None:  # statement expanded from a helper (sa/inline.py): cite the helper's own file and line
            return f"{origin[0]}:{getattr(n, 'lineno', 0)} (expanded from {origin[1]} into {self.qualname})"
        return f"{self.module.relpath}:{getattr(n, 'lineno', 0)}"


@dataclass
class ClassInfo:
    module: "Module"
    name: str
    node: ast.ClassDef
    base_exprs: list = field(default_factory=list)
    methods: dict = field(default_factory=dict)  # name -> FuncInfo

    @property
    def fq(self) -> str:
        return f"{self.module.name}:{self.name}"


@dataclass
class Module:
    name: str
    path: str
    relpath: str
    src: str
    tree: ast.Module
    # local name -> ("mod", modname) | ("obj", modname, objname)
    imports: dict = field(default_factory=dict)
    functions: dict = field(default_factory=dict)  # qualname -> FuncInfo
    classes: dict = field(default_factory=dict)  # name -> ClassInfo
    assigns: dict = field(default_factory=dict)  # module-level name -> list[ast stmt]


def set_parents(tree: ast.AST) -> None:
    for node in ast.walk(tree):
        for child in ast.iter_child_nodes(node):
            child._sa_parent = node  # type: ignore[attr-defined]


def parent(node: ast.AST):
    return getattr(node, "_sa_parent", None)


def ancestors(node: ast.AST):
    p = parent(node)
    while p is not None:
        yield p
        p = parent(p)


def enclosing_stmt(node: ast.AST) -> ast.stmt | None:
    n = node
    while n is not None and not isinstance(n, ast.stmt):
        n = parent(n)
    return n


class Repo:
    def __init__(self, root: str, package: str = "pyxform"):
        self.root = os.path.abspath(root)
        self.package = package
        self.modules: dict[str, Module] = {}
        self._load()

    # ------------------------------------------------------------------ load
    def _load(self) -> None:
        pkg_dir = os.path.join(self.root, self.package)
        if not os.path.isdir(pkg_dir):
            raise AnalysisError("loader", f"package directory {pkg_dir} not found")
        for dirpath, dirnames, filenames in os.walk(pkg_dir):
            dirnames[:] = sorted(d for d in dirnames if d != "__pycache__")
            for fn in sorted(filenames):
                if not fn.endswith(".py"):
                    continue
                path = os.path.join(dirpath, fn)
                rel = os.path.relpath(path, self.root)
                modname = rel[:-3].replace(os.sep, ".")
                if modname.endswith(".__init__"):
                    modname = modname[: -len(".__init__")]
                with open(path, encoding="utf-8") as f:
                    src = f.read()
                try:
                    tree = ast.parse(src, filename=path)
                except SyntaxError as e:
                    raise AnalysisError("loader", f"{rel} does not parse: {e}") from e
                set_parents(tree)
                m = Module(modname, path, rel, src, tree)
                self.modules[modname] = m
        for m in self.modules.values():
            self._index(m)

    def _index(self, m: Module) -> None:
        def add_import(node: ast.AST) -> None:
            if isinstance(node, ast.Import):
                for a in node.names:
                    local = a.asname or a.name.split(".")[0]
                    m.imports.setdefault(local, ("mod", a.name if a.asname else a.name.split(".")[0]))
            elif isinstance(node, ast.ImportFrom):
                base = node.module or ""
                if node.level:
                    parts = m.name.split(".")
                    # in a package __init__ level 1 is the package itself
                    up = node.level - (1 if m.path.endswith("__init__.py") else 0)
                    parts = parts[: len(parts) - up] if up else parts
                    base = ".".join([*parts, base]) if base else ".".join(parts)
                for a in node.names:
                    local = a.asname or a.name
                    full = f"{base}.{a.name}"
                    if full in self.modules or self._is_module_path(full):
                        m.imports.setdefault(local, ("mod", full))
                    else:
                        m.imports.setdefault(local, ("obj", base, a.name))

        # imports anywhere (function-local imports are used by the repo)
        for node in ast.walk(m.tree):
            if isinstance(node, ast.Import | ast.ImportFrom):
                add_import(node)

        for stmt in m.tree.body:
            targets = []
            if isinstance(stmt, ast.Assign):
                targets = stmt.targets
            elif isinstance(stmt, ast.AnnAssign) and stmt.value is not None:
                targets = [stmt.target]
            elif isinstance(stmt, ast.AugAssign):
                targets = [stmt.target]
            for t in targets:
                if isinstance(t, ast.Name):
                    m.assigns.setdefault(t.id, []).append(stmt)

        def visit(body, prefix: str, cls: ClassInfo | None, parent_fn: FuncInfo | None):
            for stmt in body:
                if isinstance(stmt, ast.FunctionDef | ast.AsyncFunctionDef):
                    qn = f"{prefix}{stmt.name}"
                    fi = FuncInfo(m, qn, stmt, cls if parent_fn is None else None, parent_fn)
                    if parent_fn is None and cls is not None:
                        fi.cls = cls
                        cls.methods[stmt.name] = fi
                    m.functions[qn] = fi
                    visit_nested(stmt, f"{qn}.", fi)
                elif isinstance(stmt, ast.ClassDef):
                    ci = ClassInfo(m, f"{prefix}{stmt.name}", stmt, list(stmt.bases))
                    m.classes[ci.name] = ci
                    visit(stmt.body, f"{ci.name}.", ci, None)
                elif isinstance(stmt, ast.If | ast.Try | ast.With | ast.For | ast.While):
                    for sub in _sub_bodies(stmt):
                        visit(sub, prefix, cls, parent_fn)

        def visit_nested(fn: ast.FunctionDef, prefix: str, fi: FuncInfo):
            for node in _walk_skip_nested(fn):
                if isinstance(node, ast.FunctionDef | ast.AsyncFunctionDef):
                    qn = f"{prefix}{node.name}"
                    sub = FuncInfo(m, qn, node, None, fi)
                    m.functions[qn] = sub
                    visit_nested(node, f"{qn}.", sub)
                elif isinstance(node, ast.ClassDef):
                    pass

        visit(m.tree.body, "", None, None)

    def _is_module_path(self, full: str) -> bool:
        p = os.path.join(self.root, *full.split("."))
        return os.path.isdir(p) or os.path.isfile(p + ".py")

    # --------------------------------------------------------------- lookups
    def module(self, name: str) -> Module:
        if name not in self.modules:
            raise AnalysisError("anchor", f"module {name} not found")
        return self.modules[name]

    def func(self, fq: str) -> FuncInfo:
        mod, _, qn = fq.partition(":")
        m = self.module(mod)
        if qn not in m.functions:
            raise AnalysisError("anchor", f"function {fq} not found")
        return m.functions[qn]

    def find_func(self, fq: str) -> FuncInfo | None:
        mod, _, qn = fq.partition(":")
        m = self.modules.get(mod)
        return m.functions.get(qn) if m else None

    def cls(self, fq: str) -> ClassInfo:
        mod, _, name = fq.partition(":")
        m = self.module(mod)
        if name not in m.classes:
            raise AnalysisError("anchor", f"class {fq} not found")
        return m.classes[name]

    def all_functions(self):
        for m in self.modules.values():
            yield from m.functions.values()

    def all_classes(self):
        for m in self.modules.values():
            yield from m.classes.values()

    def resolve_name(self, m: Module, name: str):
        """Resolve a bare name used in module `m` to ('func', FuncInfo) |
        ('class', ClassInfo) | ('mod', Module) | ('const', Module, name) |
        ('ext', dotted) | None."""
        seen = set()
        while True:
            key = (m.name, name)
            if key in seen:
                return None
            seen.add(key)
            if name in m.functions and "." not in name:
                return ("func", m.functions[name])
            if name in m.classes:
                return ("class", m.classes[name])
            if name in m.assigns:
                return ("const", m, name)
            imp = m.imports.get(name)
            if imp is None:
                return None
            if imp[0] == "mod":
                if imp[1] in self.modules:
                    return ("mod", self.modules[imp[1]])
                return ("ext", imp[1])
            _, modname, obj = imp
            if modname in self.modules:
                m, name = self.modules[modname], obj
                continue
            return ("ext", f"{modname}.{obj}")

    def resolve_dotted(self, m: Module, expr: ast.AST):
        """Resolve Name / Attribute chains to the same kinds as resolve_name."""
        if isinstance(expr, ast.Name):
            return self.resolve_name(m, expr.id)
        if isinstance(expr, ast.Attribute):
            base = self.resolve_dotted(m, expr.value)
            if base is None:
                return None
            if base[0] == "mod":
                return self.resolve_name(base[1], expr.attr)
            if base[0] == "ext":
                return ("ext", f"{base[1]}.{expr.attr}")
            if base[0] == "class":
                ci = base[1]
                if expr.attr in ci.methods:
                    return ("func", ci.methods[expr.attr])
                return ("classattr", ci, expr.attr)
        return None

    def digest(self) -> str:
        h = hashlib.sha256()
        for name in sorted(self.modules):
            h.update(name.encode())
            h.update(self.modules[name].src.encode())
        return h.hexdigest()[:16]


def _sub_bodies(stmt):
    for f in ("body", "orelse", "finalbody"):
        b = getattr(stmt, f, None)
        if b:
            yield b
    if isinstance(stmt, ast.Try):
        for h in stmt.handlers:
            yield h.body


def _walk_skip_nested(fn: ast.AST):
    """Yield nodes inside fn's body; yields nested defs but does not descend
    into them."""
    stack = list(ast.iter_child_nodes(fn))
    while stack:
        n = stack.pop()
        yield n
        if isinstance(n, ast.FunctionDef | ast.AsyncFunctionDef | ast.ClassDef | ast.Lambda):
            continue
        stack.extend(ast.iter_child_nodes(n))


def walk_own(fn: ast.AST):
    """All nodes that belong to this function's own body (not nested defs,
    lambdas and comprehensions are included since they run inline)."""
    stack = list(ast.iter_child_nodes(fn))
    while stack:
        n = stack.pop()
        yield n
        if isinstance(n, ast.FunctionDef | ast.AsyncFunctionDef | ast.ClassDef):
            continue
        stack.extend(ast.iter_child_nodes(n))


def norm(node: ast.AST) -> str:
    """Normalised text of a node (whitespace / quote independent, no line numbers)."""
    try:
        s = ast.unparse(node)
    except Exception:  # pragma: no cover
        s = ast.dump(node)
    return " ".join(s.split())


def short(node: ast.AST, n: int = 110) -> str:
    s = norm(node)
    return s if len(s) <= n else s[: n - 3] + "..."
