"""Helper inlining (a source-level normalisation run once, right after loading).

Why: most rules of this analyser are statements about one *role* function (the row loop, the bind emitter, the node
factory, ...).  "Extract a block into a helper" is the most common behaviour-preserving refactor, and it would move
the construct a rule looks at out of the function the rule looks in.  So every call to a package function that no
rule knows by name is expanded in place (arguments bound to parameters, locals renamed, `return` lowered to an
assignment), to a fixed depth.  Functions that a rule *does* name (the stoplist: every identifier that occurs in a
string literal of /verif/sa or in known_findings.json) stay calls: they are the anchors.

The expansion is semantics-preserving or it is not done at all (see `_eligible` / `NotInlinable`): no generators, no
decorators other than staticmethod, no *args/**kwargs, no nested defs, no `return` inside loops, no recursion, free
names must resolve to the same object in the caller's module, and a call is only hoisted out of an expression when it
is the first thing that expression evaluates.  A helper whose every use was expanded (and that is not referenced in
any other way) is dropped from the function index, so that a construct is attributed to its role function, not to an
incidental helper name.
"""

from __future__ import annotations

import ast
import builtins
import copy
import json
import os
import re

from .loader import FuncInfo, Repo, set_parents, walk_own

_BUILTIN_METHOD_NAMES = set()
for _t in (str, dict, list, set, tuple, bytes, int, float, object):
    _BUILTIN_METHOD_NAMES |= set(dir(_t))
_BUILTIN_NAMES = set(dir(builtins))

MAX_DEPTH = 3
MAX_BODY = 80


class NotInlinable(Exception):
    pass


def stoplist_from_verif(verif_dir: str) -> set[str]:
    """Identifiers that occur inside string literals of the analyser's own sources / the known-findings file."""
    words: set[str] = set()
    rx = re.compile(r"[A-Za-z_][A-Za-z0-9_]*")
    sa_dir = os.path.join(verif_dir, "sa")
    for dp, _dn, fns in os.walk(sa_dir):
        for fn in fns:
            if not fn.endswith(".py") or fn == "inline.py":
                continue
            try:
                tree = ast.parse(open(os.path.join(dp, fn), encoding="utf-8").read())
            except SyntaxError:
                continue
            for n in ast.walk(tree):
                if isinstance(n, ast.Constant) and isinstance(n.value, str):
                    words.update(rx.findall(n.value))
    kf = os.path.join(verif_dir, "known_findings.json")
    if os.path.exists(kf):
        try:
            for f in json.load(open(kf, encoding="utf-8")).get("findings", []):
                words.update(rx.findall(str(f.get("construct", ""))))
        except (ValueError, OSError):
            pass
    return words


def _own_stmt_nodes(fn):
    yield from walk_own(fn)


def _contains(node, types) -> bool:
    return any(isinstance(x, types) for x in ast.walk(node))


def _has_return(stmts) -> bool:
    for s in stmts:
        for x in ast.walk(s):
            if isinstance(x, ast.Return):
                return True
    return False


class Inliner:
    def __init__(self, repo: Repo, stoplist: set[str]):
        self.repo = repo
        self.stop = stoplist
        self.counter = 0
        self.log: list[tuple[str, str]] = []  # (caller fq, callee fq)
        self.name_index: dict[str, list[FuncInfo]] = {}
        for fi in repo.all_functions():
            self.name_index.setdefault(fi.name, []).append(fi)
        self._elig_cache: dict[int, bool] = {}
        self._shadow_cache: dict[int, set[str]] = {}
        self._names_cache: dict[int, set[str]] = {}
        self._locals_cache: dict[int, set[str]] = {}

    # ------------------------------------------------------------------ resolution
    def resolve(self, call: ast.Call, caller: FuncInfo) -> tuple[FuncInfo, ast.AST | None] | None:
        """-> (callee, receiver expression bound to the first parameter or None)."""
        f = call.func
        m = caller.module
        if isinstance(f, ast.Name):
            # a local (nested def / variable / parameter) shadows module names
            if f.id in self._shadow(caller):
                return None
            r = self.repo.resolve_name(m, f.id)
            if r and r[0] == "func" and r[1].cls is None and r[1].parent is None:
                return r[1], None
            return None
        if isinstance(f, ast.Attribute):
            r = self.repo.resolve_dotted(m, f)
            if r and r[0] == "func":
                fi = r[1]
                if fi.cls is None:
                    return fi, None
                if _is_static(fi):
                    return fi, None
                return None  # Class.method(obj, ...) unbound call: leave alone
            # obj.method(...): unique method name in the package, not a builtin-type method name
            if f.attr in _BUILTIN_METHOD_NAMES:
                return None
            base = self.repo.resolve_dotted(m, f.value)
            if base is not None and base[0] in ("mod", "ext", "const"):
                return None
            cands = [c for c in self.name_index.get(f.attr, []) if c.cls is not None and c.parent is None]
            if len(cands) == 1 and len(self.name_index.get(f.attr, [])) == 1:
                fi = cands[0]
                if _is_static(fi):
                    return fi, None
                if _decorators(fi):
                    return None
                return fi, f.value
        return None

    def _shadow(self, caller: FuncInfo) -> set[str]:
        k = id(caller.node)
        if k not in self._shadow_cache:
            names = set()
            fi = caller
            while fi is not None:
                names |= _locals_of(fi.node)
                for x in walk_own(fi.node):
                    if isinstance(x, ast.FunctionDef | ast.AsyncFunctionDef | ast.ClassDef):
                        names.add(x.name)
                fi = fi.parent
            self._shadow_cache[k] = names
        return self._shadow_cache[k]

    def _all_names(self, caller: FuncInfo) -> set[str]:
        """Every identifier used in the caller (and its enclosing functions), bound or free."""
        k = id(caller.node)
        if k not in self._names_cache:
            names = set()
            fi = caller
            while fi is not None:
                for x in ast.walk(fi.node):
                    if isinstance(x, ast.Name):
                        names.add(x.id)
                    elif isinstance(x, ast.arg):
                        names.add(x.arg)
                    elif isinstance(x, ast.FunctionDef | ast.AsyncFunctionDef | ast.ClassDef):
                        names.add(x.name)
                    elif isinstance(x, ast.ExceptHandler) and x.name:
                        names.add(x.name)
                fi = fi.parent
            self._names_cache[k] = names
        return self._names_cache[k]

    # ------------------------------------------------------------------ eligibility
    def eligible(self, fi: FuncInfo) -> bool:
        k = id(fi.node)
        if k not in self._elig_cache:
            self._elig_cache[k] = self._eligible(fi)
        return self._elig_cache[k]

    def _eligible(self, fi: FuncInfo) -> bool:
        if fi.name in self.stop or fi.name.startswith("__"):
            return False
        n = fi.node
        if isinstance(n, ast.AsyncFunctionDef):
            return False
        decs = _decorators(fi)
        if decs and decs != ["staticmethod"]:
            return False
        a = n.args
        if a.vararg or a.kwarg:
            return False
        for d in [*a.defaults, *[x for x in a.kw_defaults if x is not None]]:
            if not _is_const_expr(d):
                return False
        count = 0
        for x in walk_own(n):
            if isinstance(x, ast.stmt):
                count += 1
            if isinstance(x, ast.Yield | ast.YieldFrom | ast.Await | ast.Global | ast.Nonlocal | ast.FunctionDef | ast.AsyncFunctionDef | ast.ClassDef):
                return False
            if isinstance(x, ast.Call) and isinstance(x.func, ast.Name) and x.func.id in ("locals", "vars", "super", "globals", "eval", "exec"):
                return False
            if isinstance(x, ast.Call):
                # direct recursion
                if (isinstance(x.func, ast.Name) and x.func.id == fi.name) or (isinstance(x.func, ast.Attribute) and x.func.attr == fi.name):
                    return False
        if count > MAX_BODY:
            return False
        try:
            _lower_returns(_strip_doc(n.body), "__probe__", True)
        except NotInlinable:
            return False
        return True

    def _free_names_agree(self, callee: FuncInfo, caller: FuncInfo) -> bool:
        locals_ = _locals_of(callee.node)
        # a free (global) name of the helper must not be captured by a local of the function it is expanded into
        caller_locals = self._shadow(caller)
        for x in walk_own(callee.node):
            if isinstance(x, ast.Name) and isinstance(x.ctx, ast.Load) and x.id not in locals_ and x.id in caller_locals:
                return False
        if callee.module is caller.module:
            return True
        for x in walk_own(callee.node):
            if isinstance(x, ast.Name) and isinstance(x.ctx, ast.Load) and x.id not in locals_:
                if x.id in _BUILTIN_NAMES and self.repo.resolve_name(callee.module, x.id) is None:
                    if self.repo.resolve_name(caller.module, x.id) is not None:
                        return False
                    continue
                a = self.repo.resolve_name(callee.module, x.id)
                b = self.repo.resolve_name(caller.module, x.id)
                if a is None or b is None or not _same_resolution(a, b):
                    return False
        return True

    # ------------------------------------------------------------------ driver
    def run(self) -> None:
        inlined_into: dict[int, int] = {}
        for fi in list(self.repo.all_functions()):
            changed = self._process_function(fi)
            if changed:
                set_parents(fi.node)
        self._drop_fully_inlined()

    def _process_function(self, fi: FuncInfo) -> bool:
        changed = False
        for depth in range(MAX_DEPTH):
            c = self._rewrite_block_lists(fi.node, fi)
            changed = changed or c
            if not c:
                break
        return changed

    def _rewrite_block_lists(self, root: ast.AST, caller: FuncInfo) -> bool:
        changed = False
        for node in [root, *walk_own(root)]:
            for field in ("body", "orelse", "finalbody"):
                blk = getattr(node, field, None)
                if isinstance(blk, list) and blk and isinstance(blk[0], ast.stmt):
                    new = self._rewrite_stmts(blk, caller)
                    if new is not None:
                        setattr(node, field, new)
                        changed = True
            if isinstance(node, ast.Try):
                for h in node.handlers:
                    new = self._rewrite_stmts(h.body, caller)
                    if new is not None:
                        h.body = new
                        changed = True
        return changed

    def _rewrite_stmts(self, stmts: list, caller: FuncInfo):
        out = []
        changed = False
        for st in stmts:
            rep = self._rewrite_stmt(st, caller)
            if rep is None:
                out.append(st)
            else:
                out.extend(rep)
                changed = True
        return out if changed else None

    # which expression slots of a statement are evaluated exactly once, first, before anything else of the statement
    def _header_exprs(self, st):
        if isinstance(st, ast.Expr):
            return [("value", st.value)]
        if isinstance(st, ast.Assign):
            # subscript / attribute targets are evaluated after the value: fine
            return [("value", st.value)]
        if isinstance(st, ast.AnnAssign) and st.value is not None:
            return [("value", st.value)]
        if isinstance(st, ast.AugAssign):
            if isinstance(st.target, ast.Name):
                return [("value", st.value)]
            return []
        if isinstance(st, ast.Return) and st.value is not None:
            return [("value", st.value)]
        if isinstance(st, ast.If):
            return [("test", st.test)]
        if isinstance(st, ast.For):
            return [("iter", st.iter)]
        if isinstance(st, ast.Raise) and st.exc is not None:
            return [("exc", st.exc)]
        return []

    def _rewrite_stmt(self, st, caller: FuncInfo):
        for field, expr in self._header_exprs(st):
            call = _first_call(expr)
            if call is None:
                continue
            res = self.resolve(call, caller)
            if res is None:
                continue
            callee, recv = res
            if callee is caller or not self.eligible(callee) or not self._free_names_agree(callee, caller):
                continue
            try:
                pre, result_expr = self._expand(call, callee, recv, caller, result_used=not (isinstance(st, ast.Expr) and st.value is call))
            except NotInlinable:
                continue
            self.log.append((caller.fq, callee.fq))
            if isinstance(st, ast.Expr) and st.value is call:
                return pre or [ast.copy_location(ast.Pass(), st)]
            new_st = _replace_node(st, call, result_expr)
            return [*pre, new_st]
        return None

    def _expand(self, call: ast.Call, callee: FuncInfo, recv, caller: FuncInfo, result_used: bool):
        self.counter += 1
        tag = f"__i{self.counter}"
        a = callee.node.args
        params = [p.arg for p in [*a.posonlyargs, *a.args]]
        defaults = [None] * (len(params) - len(a.defaults)) + list(a.defaults)
        kwonly = [p.arg for p in a.kwonlyargs]
        actual: dict[str, ast.AST] = {}
        pos = list(call.args)
        if any(isinstance(x, ast.Starred) for x in pos) or any(k.arg is None for k in call.keywords):
            raise NotInlinable
        if recv is not None:
            pos = [recv, *pos]
        if len(pos) > len(params):
            raise NotInlinable
        for p, v in zip(params, pos):
            actual[p] = v
        for k in call.keywords:
            if k.arg in actual or (k.arg not in params and k.arg not in kwonly):
                raise NotInlinable
            actual[k.arg] = k.value
        for p, d in zip(params, defaults):
            if p not in actual:
                if d is None:
                    raise NotInlinable
                actual[p] = _clone(d)
        for p, d in zip(kwonly, a.kw_defaults):
            if p not in actual:
                if d is None:
                    raise NotInlinable
                actual[p] = _clone(d)
        body = _clone(_strip_doc(callee.node.body))
        stored = {x.id for s in body for x in ast.walk(s) if isinstance(x, ast.Name) and isinstance(x.ctx, ast.Store | ast.Del)}
        stored |= {h.name for s in body for h in ast.walk(s) if isinstance(h, ast.ExceptHandler) and h.name}
        locals_ = _locals_of(callee.node)
        pre: list[ast.stmt] = []
        subst: dict[str, ast.AST] = {}
        rename: dict[str, str] = {}
        # evaluation order of arguments must be kept: once one argument needs a temporary, all later ones get one too
        need_temp_from = None
        order = [*params, *kwonly]
        arg_order = [p for p in order if p in actual]
        for i, p in enumerate(arg_order):
            v = actual[p]
            simple = p not in stored and isinstance(v, ast.Constant | ast.Name)  # a parameter the helper assigns is a variable
            if not simple and need_temp_from is None:
                need_temp_from = i
        for i, p in enumerate(arg_order):
            v = actual[p]
            simple = p not in stored and isinstance(v, ast.Constant | ast.Name)  # a parameter the helper assigns is a variable
            if simple and (need_temp_from is None or i < need_temp_from or isinstance(v, ast.Constant)):
                subst[p] = v
            else:
                nm = f"{p}{tag}"
                rename[p] = nm
                asg = ast.Assign(targets=[ast.Name(id=nm, ctx=ast.Store())], value=v, lineno=call.lineno, col_offset=call.col_offset)
                pre.append(ast.fix_missing_locations(ast.copy_location(asg, call)))
        # helper locals keep their own name when that cannot clash with anything in the function they are expanded
        # into (a block that was extracted from this very function gets its old names back); otherwise they are tagged
        taken = self._all_names(caller)
        for nm in sorted(locals_):
            if nm not in subst and nm not in rename:
                if nm in taken:
                    rename[nm] = f"{nm}{tag}"
                else:
                    taken.add(nm)
        ret = f"__ret{tag}"
        body = [_Renamer(rename, subst).visit(s) for s in body]
        lowered, _term = _lower_returns(body, ret, result_used)
        origin = (callee.module.relpath, callee.qualname)
        for s in lowered:
            for x in ast.walk(s):
                if not hasattr(x, "_sa_origin"):
                    x._sa_origin = origin  # type: ignore[attr-defined]
            ast.fix_missing_locations(s)
        stmts = [*pre]
        if result_used and not _always_assigns(lowered, ret):
            init = ast.Assign(targets=[ast.Name(id=ret, ctx=ast.Store())], value=ast.Constant(value=None))
            stmts.append(ast.fix_missing_locations(ast.copy_location(init, call)))
        stmts.extend(lowered)
        result = ast.copy_location(ast.Name(id=ret, ctx=ast.Load()), call) if result_used else None
        return stmts, result

    # ------------------------------------------------------------------ index maintenance
    def _drop_fully_inlined(self) -> None:
        callee_fqs = {c for _, c in self.log}
        if not callee_fqs:
            return
        # any remaining reference (call or value) to the simple name keeps the function in the index
        refs: dict[str, int] = {}
        for m in self.repo.modules.values():
            for x in ast.walk(m.tree):
                if isinstance(x, ast.Name) and isinstance(x.ctx, ast.Load):
                    refs[x.id] = refs.get(x.id, 0) + 1
                elif isinstance(x, ast.Attribute):
                    refs[x.attr] = refs.get(x.attr, 0) + 1
                elif isinstance(x, ast.alias):
                    pass
        self.dropped = []
        for m in self.repo.modules.values():
            for qn, fi in list(m.functions.items()):
                if fi.fq in callee_fqs and refs.get(fi.name, 0) == 0:
                    del m.functions[qn]
                    if fi.cls is not None and fi.cls.methods.get(fi.name) is fi:
                        del fi.cls.methods[fi.name]
                    self.dropped.append(fi.fq)


# ---------------------------------------------------------------------- helpers
def _clone(node):
    """Deep copy of an AST following syntax fields only (the loader's parent links must not be followed)."""
    if isinstance(node, list):
        return [_clone(x) for x in node]
    if not isinstance(node, ast.AST):
        return node
    new = type(node)()
    for f, v in ast.iter_fields(node):
        setattr(new, f, _clone(v))
    for a in ("lineno", "col_offset", "end_lineno", "end_col_offset"):
        if hasattr(node, a):
            setattr(new, a, getattr(node, a))
    if hasattr(node, "_sa_origin"):
        new._sa_origin = node._sa_origin
    return new


def _is_const_expr(d) -> bool:
    if isinstance(d, ast.Constant):
        return True
    if isinstance(d, ast.UnaryOp) and isinstance(d.operand, ast.Constant):
        return True
    if isinstance(d, ast.Tuple) and all(_is_const_expr(e) for e in d.elts):
        return True
    if isinstance(d, ast.Attribute | ast.Name):
        return True  # module constant reference; resolved by the free-name agreement test
    return False


def _decorators(fi: FuncInfo) -> list[str]:
    out = []
    for d in fi.node.decorator_list:
        out.append(ast.unparse(d))
    return out


def _is_static(fi: FuncInfo) -> bool:
    return _decorators(fi) == ["staticmethod"]


def _strip_doc(body):
    if body and isinstance(body[0], ast.Expr) and isinstance(body[0].value, ast.Constant) and isinstance(body[0].value.value, str):
        return body[1:] or [ast.Pass(lineno=body[0].lineno, col_offset=0)]
    return body


_LOCALS_CACHE: dict[int, tuple] = {}


def _locals_of(fn) -> set[str]:
    k = id(fn)
    hit = _LOCALS_CACHE.get(k)
    if hit is not None and hit[0] is fn:
        return set(hit[1])
    names = _locals_of_uncached(fn)
    _LOCALS_CACHE[k] = (fn, frozenset(names))
    return names


def _locals_of_uncached(fn) -> set[str]:
    names = set()
    a = fn.args
    for x in [*a.posonlyargs, *a.args, *a.kwonlyargs]:
        names.add(x.arg)
    for x in walk_own(fn):
        if isinstance(x, ast.Name) and isinstance(x.ctx, ast.Store | ast.Del):
            names.add(x.id)
        elif isinstance(x, ast.ExceptHandler) and x.name:
            names.add(x.name)
        elif isinstance(x, ast.arg):
            names.add(x.arg)  # lambda parameters: alpha-renamed consistently
        elif isinstance(x, ast.Import):
            for al in x.names:
                names.add(al.asname or al.name.split(".")[0])
        elif isinstance(x, ast.ImportFrom):
            for al in x.names:
                names.add(al.asname or al.name)
    return names


def _same_resolution(a, b) -> bool:
    if a[0] != b[0]:
        return False
    if a[0] in ("func", "class", "mod"):
        return a[1] is b[1]
    if a[0] == "const":
        return a[1] is b[1] and a[2] == b[2]
    if a[0] == "ext":
        return a[1] == b[1]
    return False


class _Renamer(ast.NodeTransformer):
    def __init__(self, rename, subst):
        self.rename = rename
        self.subst = subst

    def visit_Name(self, n):
        if n.id in self.subst and isinstance(n.ctx, ast.Load):
            return ast.copy_location(_clone(self.subst[n.id]), n)
        if n.id in self.rename:
            return ast.copy_location(ast.Name(id=self.rename[n.id], ctx=n.ctx), n)
        return n

    def visit_arg(self, n):
        if n.arg in self.rename:
            n.arg = self.rename[n.arg]
        return n

    def visit_ExceptHandler(self, n):
        if n.name and n.name in self.rename:
            n.name = self.rename[n.name]
        self.generic_visit(n)
        return n

    def visit_alias(self, n):
        local = n.asname or n.name.split(".")[0]
        if local in self.rename:
            n.asname = self.rename[local]
        return n


def _lower_returns(stmts, ret: str, result_used: bool):
    """`return e` -> `ret = e`, with the statements after an early return moved under the complementary branch.
    -> (statements, always_terminates).  Raises NotInlinable when a return sits in a loop / try / partial nest."""
    out = []
    for i, st in enumerate(stmts):
        if isinstance(st, ast.Return):
            if result_used:
                v = st.value if st.value is not None else ast.Constant(value=None)
                asg = ast.Assign(targets=[ast.Name(id=ret, ctx=ast.Store())], value=v)
                out.append(ast.fix_missing_locations(ast.copy_location(asg, st)))
            elif st.value is not None and not isinstance(st.value, ast.Constant | ast.Name):
                out.append(ast.fix_missing_locations(ast.copy_location(ast.Expr(value=st.value), st)))
            if not out:
                out.append(ast.copy_location(ast.Pass(), st))
            return out, True
        if isinstance(st, ast.Raise):
            out.append(st)
            return out, True
        if not _has_return([st]):
            out.append(st)
            continue
        rest = stmts[i + 1:]
        if isinstance(st, ast.If):
            b, tb = _lower_returns(st.body, ret, result_used)
            e, te = _lower_returns(st.orelse, ret, result_used) if st.orelse else ([], False)
            if tb and te:
                out.append(_mk_if(st, b, e))
                return out, True
            if tb and not _has_return(st.orelse):
                r, tr = _lower_returns(rest, ret, result_used) if rest else ([], False)
                out.append(_mk_if(st, b, [*e, *r]))
                return out, tr
            if te and not _has_return(st.body):
                r, tr = _lower_returns(rest, ret, result_used) if rest else ([], False)
                out.append(_mk_if(st, [*b, *r], e))
                return out, tr
            raise NotInlinable
        if isinstance(st, ast.With) and not rest:
            b, tb = _lower_returns(st.body, ret, result_used)
            new = copy.copy(st)
            new.body = b
            out.append(new)
            return out, tb
        if isinstance(st, ast.Try) and not rest and not _has_return(st.finalbody):
            new = copy.copy(st)
            new.body, tb = _lower_returns(st.body, ret, result_used)
            hs = []
            th = True
            for h in st.handlers:
                nh = copy.copy(h)
                nh.body, t1 = _lower_returns(h.body, ret, result_used)
                th = th and t1
                hs.append(nh)
            new.handlers = hs
            to = True
            if st.orelse:
                new.orelse, to = _lower_returns(st.orelse, ret, result_used)
            out.append(new)
            return out, tb and th and to
        raise NotInlinable
    return out, False


def _mk_if(st, body, orelse):
    new = ast.If(test=st.test, body=body or [ast.Pass()], orelse=orelse)
    return ast.fix_missing_locations(ast.copy_location(new, st))


def _always_assigns(stmts, ret) -> bool:
    """every path through stmts assigns `ret` or raises."""
    for st in stmts:
        if isinstance(st, ast.Assign) and any(isinstance(t, ast.Name) and t.id == ret for t in st.targets):
            return True
        if isinstance(st, ast.Raise):
            return True
        if isinstance(st, ast.If) and st.orelse and _always_assigns(st.body, ret) and _always_assigns(st.orelse, ret):
            return True
    return False


def _first_call(expr):
    """The call that completes first when `expr` is evaluated, provided everything evaluated before it is a plain
    name / constant / attribute load (so hoisting it in front of the statement keeps the evaluation order)."""
    found = [None]

    class Stop(Exception):
        pass

    def pure(n) -> bool:
        return isinstance(n, ast.Name | ast.Constant) or (isinstance(n, ast.Attribute) and pure(n.value))

    def visit(n):
        # returns normally if n is pure-simple (nothing observable evaluated); raises Stop otherwise
        if pure(n):
            return
        if isinstance(n, ast.Call):
            if not pure(n.func):
                if isinstance(n.func, ast.Attribute):
                    visit(n.func.value)
                else:
                    raise Stop
            # the arguments are evaluated as part of the call itself: hoisting the call takes them along
            found[0] = n
            raise Stop
        if isinstance(n, ast.BoolOp):
            visit(n.values[0])
            raise Stop
        if isinstance(n, ast.IfExp):
            visit(n.test)
            raise Stop
        if isinstance(n, ast.UnaryOp):
            visit(n.operand)
            raise Stop
        if isinstance(n, ast.BinOp):
            visit(n.left)
            visit(n.right)
            raise Stop
        if isinstance(n, ast.Compare):
            visit(n.left)
            raise Stop
        if isinstance(n, ast.Tuple | ast.List | ast.Set):
            for e in n.elts:
                if isinstance(e, ast.Starred):
                    visit(e.value)
                else:
                    visit(e)
            return
        if isinstance(n, ast.Dict):
            for k, v in zip(n.keys, n.values):
                if k is not None:
                    visit(k)
                visit(v)
            return
        if isinstance(n, ast.Subscript):
            visit(n.value)
            if not isinstance(n.slice, ast.Slice):
                visit(n.slice)
            raise Stop
        if isinstance(n, ast.JoinedStr):
            for v in n.values:
                if isinstance(v, ast.FormattedValue):
                    visit(v.value)
                    raise Stop
            return
        if isinstance(n, ast.Yield | ast.YieldFrom | ast.Await):
            if n.value is not None:
                visit(n.value)
            raise Stop
        if isinstance(n, ast.ListComp | ast.SetComp | ast.GeneratorExp | ast.DictComp):
            visit(n.generators[0].iter)
            raise Stop
        if isinstance(n, ast.Starred):
            visit(n.value)
            return
        raise Stop

    try:
        visit(expr)
    except Stop:
        pass
    return found[0]


def _replace_node(st, old, new):
    class R(ast.NodeTransformer):
        def visit(self, n):
            if n is old:
                return new
            return super().visit(n)

        def generic_visit(self, n):
            # do not descend into statement bodies: only the header expression contains `old`
            for field, value in ast.iter_fields(n):
                if field in ("body", "orelse", "finalbody", "handlers") and isinstance(n, ast.stmt):
                    continue
                if isinstance(value, list):
                    nv = []
                    for x in value:
                        if isinstance(x, ast.AST):
                            x = self.visit(x)
                        nv.append(x)
                    setattr(n, field, nv)
                elif isinstance(value, ast.AST):
                    setattr(n, field, self.visit(value))
            return n

    return R().visit(st)


def normalise(repo: Repo, verif_dir: str) -> Inliner:
    inl = Inliner(repo, stoplist_from_verif(verif_dir))
    inl.run()
    return inl
