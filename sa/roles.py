"""Recovery of renamed locals ("rename a local / a parameter of a private function" is a behaviour-preserving edit).

Many rules recognise a construct through the local it is stored in (`parent_children_array.append(...)`,
`table_list is not None`).  To keep them exact *and* indifferent to renames, every local of every function gets a
signature that does not mention local names: how it is defined (parameter position, loop target, the text of its
first defining expressions with every local replaced by `$`).  The signatures of the tree the rules were written
against are frozen in sa/roles.json (tools/gen_roles.py).  On every run, for a function that still exists but lacks
one of its recorded locals, a local with an unrecorded name and exactly that signature is that local, renamed — and is
renamed back, in the analysed AST only.  Nothing is recovered when the match is not unique; the rule then sees the
code as it is (status quo), so this normalisation can only remove false alarms, never hide a change of behaviour:
the defining expressions must be token-for-token the same.
"""

from __future__ import annotations

import ast
import json
import os

from .loader import FuncInfo, Repo, norm, set_parents, walk_own

TABLE = os.path.join(os.path.dirname(os.path.abspath(__file__)), "roles.json")


def _locals(fn) -> set[str]:
    names = set()
    a = fn.args
    for x in [*a.posonlyargs, *a.args, *a.kwonlyargs, *([a.vararg] if a.vararg else []), *([a.kwarg] if a.kwarg else [])]:
        names.add(x.arg)
    for x in walk_own(fn):
        if isinstance(x, ast.Name) and isinstance(x.ctx, ast.Store | ast.Del):
            names.add(x.id)
        elif isinstance(x, ast.ExceptHandler) and x.name:
            names.add(x.name)
    return names


class _Abs(ast.NodeTransformer):
    def __init__(self, locs):
        self.locs = locs

    def visit_Name(self, n):
        if n.id in self.locs:
            return ast.copy_location(ast.Name(id="$", ctx=n.ctx), n)
        return n

    def visit_arg(self, n):
        if n.arg in self.locs:
            n = ast.arg(arg="$", annotation=None)
        return n


def _clone(node):
    if isinstance(node, list):
        return [_clone(x) for x in node]
    if not isinstance(node, ast.AST):
        return node
    new = type(node)()
    for f, v in ast.iter_fields(node):
        setattr(new, f, _clone(v))
    return new


def _abs_text(expr, locs) -> str:
    try:
        return norm(_Abs(locs).visit(_clone(expr)))
    except Exception:  # noqa: BLE001
        return "?"


def signatures(fn) -> dict[str, str]:
    """local -> signature (see module docstring)."""
    locs = _locals(fn)
    defs: dict[str, list[str]] = {n: [] for n in locs}
    a = fn.args
    pos = [*a.posonlyargs, *a.args]
    for i, p in enumerate(pos):
        defs[p.arg].append(f"param#{i}")
    for p in a.kwonlyargs:
        defs[p.arg].append(f"kwonly:{_abs_text(p.annotation, locs) if p.annotation else ''}")
    if a.vararg:
        defs[a.vararg.arg].append("vararg")
    if a.kwarg:
        defs[a.kwarg.arg].append("kwarg")

    def target_paths(t, prefix=""):
        if isinstance(t, ast.Name):
            yield t.id, prefix
        elif isinstance(t, ast.Tuple | ast.List):
            for i, e in enumerate(t.elts):
                yield from target_paths(e, f"{prefix}[{i}]")
        elif isinstance(t, ast.Starred):
            yield from target_paths(t.value, prefix + "*")

    stmts = sorted((x for x in walk_own(fn) if isinstance(x, ast.stmt | ast.ExceptHandler | ast.comprehension | ast.NamedExpr)),
                   key=lambda x: (getattr(x, "lineno", 0), getattr(x, "col_offset", 0)))
    for x in stmts:
        if isinstance(x, ast.Assign):
            rhs = _abs_text(x.value, locs)
            for t in x.targets:
                for nm, path in target_paths(t):
                    defs[nm].append(f"={path}{rhs}")
        elif isinstance(x, ast.AnnAssign) and isinstance(x.target, ast.Name):
            defs[x.target.id].append(f"={_abs_text(x.value, locs) if x.value is not None else ''}")
        elif isinstance(x, ast.AugAssign) and isinstance(x.target, ast.Name):
            defs[x.target.id].append(f"{type(x.op).__name__}={_abs_text(x.value, locs)}")
        elif isinstance(x, ast.For):
            it = _abs_text(x.iter, locs)
            for nm, path in target_paths(x.target):
                defs[nm].append(f"for{path} in {it}")
        elif isinstance(x, ast.With):
            for item in x.items:
                if item.optional_vars is not None:
                    for nm, path in target_paths(item.optional_vars):
                        defs[nm].append(f"with{path} {_abs_text(item.context_expr, locs)}")
        elif isinstance(x, ast.ExceptHandler) and x.name:
            defs[x.name].append(f"except {_abs_text(x.type, locs) if x.type else ''}")
        elif isinstance(x, ast.comprehension):
            it = _abs_text(x.iter, locs)
            for nm, path in target_paths(x.target):
                if nm in defs:
                    defs[nm].append(f"comp{path} in {it}")
        elif isinstance(x, ast.NamedExpr) and isinstance(x.target, ast.Name) and x.target.id in defs:
            defs[x.target.id].append(f":={_abs_text(x.value, locs)}")
    return {n: " | ".join(d[:2]) for n, d in defs.items() if d}


def build_table(repo: Repo) -> dict:
    out = {}
    for fi in repo.all_functions():
        sig = signatures(fi.node)
        if sig:
            out[fi.fq] = sig
    return out


class _Rename(ast.NodeTransformer):
    def __init__(self, mapping):
        self.m = mapping

    def visit_Name(self, n):
        if n.id in self.m:
            n.id = self.m[n.id]
        return n

    def visit_arg(self, n):
        if n.arg in self.m:
            n.arg = self.m[n.arg]
        return n

    def visit_ExceptHandler(self, n):
        if n.name and n.name in self.m:
            n.name = self.m[n.name]
        self.generic_visit(n)
        return n

    def visit_keyword(self, n):
        self.generic_visit(n)
        return n

    def visit_FunctionDef(self, n):
        # nested defs see the enclosing locals as free names
        self.generic_visit(n)
        return n


def recover(repo: Repo, table: dict | None = None) -> list[tuple[str, str, str]]:
    """Rename recovered locals in place; -> [(function, current name, recorded name)]."""
    if table is None:
        if not os.path.exists(TABLE):
            return []
        with open(TABLE, encoding="utf-8") as f:
            table = json.load(f)
    log = []
    for fi in list(repo.all_functions()):
        want = table.get(fi.fq)
        if not want:
            continue
        have = signatures(fi.node)
        missing = [n for n in want if n not in have]
        if not missing:
            continue
        unknown = [n for n in have if n not in want]
        if not unknown:
            continue
        mapping = {}
        used = set()
        for n in missing:
            cands = [u for u in unknown if have[u] == want[n] and u not in used]
            # the signature must also be unique among the recorded locals, else the match is ambiguous
            same_recorded = [k for k, v in want.items() if v == want[n] and k in missing]
            if len(cands) == 1 and len(same_recorded) == 1:
                mapping[cands[0]] = n
                used.add(cands[0])
        if not mapping:
            continue
        # keyword arguments at call sites of a function whose parameter was renamed are left alone: rules look at the
        # function, and the evaluator binds by the function's own parameter names after the rename
        _Rename(mapping).visit(fi.node)
        renamed_params = {a: b for a, b in mapping.items() if have[a].startswith(("param#", "kwonly"))}
        if renamed_params:
            _fix_keywords(repo, fi, renamed_params)
        set_parents(fi.node)
        for a, b in mapping.items():
            log.append((fi.fq, a, b))
    return log


def _fix_keywords(repo: Repo, fi: FuncInfo, renamed: dict) -> None:
    """Calls that pass a renamed parameter by keyword keep working in the evaluator."""
    for m in repo.modules.values():
        for x in ast.walk(m.tree):
            if isinstance(x, ast.Call):
                f = x.func
                nm = f.id if isinstance(f, ast.Name) else (f.attr if isinstance(f, ast.Attribute) else None)
                if nm == fi.name:
                    for k in x.keywords:
                        if k.arg in renamed:
                            k.arg = renamed[k.arg]
