"""Independent oracle tables: what the XLSForm / ODK XForms documentation
prescribes.  Written from the public specification (xlsform.org question-type
table, ODK XForms spec), NOT derived from the repository's tables."""

# type -> (control tag | None, mediatype | None, bind type, preload, preloadParams)
TYPE_SPEC = {
    "integer": ("input", None, "int", None, None),
    "decimal": ("input", None, "decimal", None, None),
    "range": ("range", None, "int", None, None),
    "text": ("input", None, "string", None, None),
    "select one": ("select1", None, "string", None, None),
    "select all that apply": ("select", None, "string", None, None),
    "select one external": ("input", None, "string", None, None),
    "rank": ("odk:rank", None, "odk:rank", None, None),
    "note": ("input", None, "string", None, None),
    "geopoint": ("input", None, "geopoint", None, None),
    "geotrace": ("input", None, "geotrace", None, None),
    "geoshape": ("input", None, "geoshape", None, None),
    "date": ("input", None, "date", None, None),
    "time": ("input", None, "time", None, None),
    "dateTime": ("input", None, "dateTime", None, None),
    "photo": ("upload", "image/*", "binary", None, None),
    "audio": ("upload", "audio/*", "binary", None, None),
    "video": ("upload", "video/*", "binary", None, None),
    "file": ("upload", "application/*", "binary", None, None),
    "barcode": ("input", None, "barcode", None, None),
    "calculate": (None, None, "string", None, None),
    "acknowledge": ("trigger", None, "string", None, None),
    "hidden": (None, None, "string", None, None),
    "start": (None, None, "dateTime", "timestamp", "start"),
    "end": (None, None, "dateTime", "timestamp", "end"),
    "today": (None, None, "date", "date", "today"),
    "deviceid": (None, None, "string", "property", "deviceid"),
    "phonenumber": (None, None, "string", "property", "phonenumber"),
    "username": (None, None, "string", "property", "username"),
    "email": (None, None, "string", "property", "email"),
    "simserial": (None, None, "string", "property", "simserial"),
    "subscriberid": (None, None, "string", "property", "subscriberid"),
    "audit": (None, None, "binary", None, None),
    "background-audio": ("action", None, "binary", None, None),
    "start-geopoint": ("action", None, "geopoint", None, None),
    "background-geopoint": ("trigger", None, "geopoint", None, None),
    "osm": ("upload", "osm/*", "binary", None, None),
}
# metadata (preload) types, including the legacy spellings and the uri: variants (ODK XForms spec, "Preload attributes";
# JavaRosa property names): type -> (bind type, jr:preload, jr:preloadParams)
PRELOAD_SPEC = {
    "start": ("dateTime", "timestamp", "start"), "start time": ("dateTime", "timestamp", "start"), "get start time": ("dateTime", "timestamp", "start"),
    "end": ("dateTime", "timestamp", "end"), "end time": ("dateTime", "timestamp", "end"), "get end time": ("dateTime", "timestamp", "end"),
    "today": ("date", "date", "today"), "get today": ("date", "date", "today"),
    "deviceid": ("string", "property", "deviceid"), "device id": ("string", "property", "deviceid"), "get device id": ("string", "property", "deviceid"),
    "imei": ("string", "property", "deviceid"),
    "subscriberid": ("string", "property", "subscriberid"), "subscriber id": ("string", "property", "subscriberid"), "get subscriber id": ("string", "property", "subscriberid"),
    "simserial": ("string", "property", "simserial"), "sim id": ("string", "property", "simserial"), "get sim id": ("string", "property", "simserial"),
    "phonenumber": ("string", "property", "phonenumber"), "get phone number": ("string", "property", "phonenumber"),
    "username": ("string", "property", "username"), "email": ("string", "property", "email"),
    "uri:deviceid": ("string", "property", "uri:deviceid"), "uri:subscriberid": ("string", "property", "uri:subscriberid"),
    "uri:simserial": ("string", "property", "uri:simserial"), "uri:phonenumber": ("string", "property", "uri:phonenumber"),
    "uri:username": ("string", "property", "uri:username"), "uri:email": ("string", "property", "uri:email"),
}
# spellings that must have entries equal to the canonical type's entry
TYPE_ALIAS_GROUPS = [
    ("integer", "int"),
    ("text", "string"),
    ("photo", "image"),
    ("dateTime", "datetime"),
    ("acknowledge",),
]
ACTIONS = {
    "background-audio": {"name": "odk:recordaudio", "event": "odk-instance-load"},
    "start-geopoint": {"name": "odk:setgeopoint", "event": "odk-instance-first-load"},
}
NOTE_READONLY = "true()"

# survey sheet logic columns -> bind attribute
LOGIC_COLUMNS = {
    "relevant": "relevant", "relevance": "relevant",
    "required": "required",
    "read_only": "readonly", "readonly": "readonly",
    "constraint": "constraint",
    "constraint_message": "jr:constraintMsg", "constraining_message": "jr:constraintMsg",
    "calculation": "calculate", "calculate": "calculate",
    "required_message": "jr:requiredMsg", "requiredmsg": "jr:requiredMsg",
    "noapperrorstring": "jr:noAppErrorString", "no_app_error_string": "jr:noAppErrorString",
    "save_to": "entities:saveto",
}
CONTROL_COLUMNS = {"appearance": "appearance", "count": "jr:count", "repeat_count": "jr:count", "jr:count": "jr:count",
                   "autoplay": "autoplay", "rows": "rows"}
MEDIA_COLUMNS = {"image": "image", "big-image": "big-image", "audio": "audio", "video": "video"}
OTHER_SURVEY_ALIASES = {"caption": "label", "command": "type", "tag": "name", "value": "name", "body": "control"}
LIST_ALIASES = {"caption": "label", "list_name": "list name", "value": "name"}
SETTINGS_ALIASES = {"form_title": "title", "set_form_title": "title", "form_id": "id_string", "set_form_id": "id_string", "prefix": "prefix"}

TRUE_SPELLINGS = ["yes", "Yes", "YES", "true", "True", "TRUE"]
FALSE_SPELLINGS = ["no", "No", "NO", "false", "False", "FALSE"]
CONVERTIBLE = {"readonly", "required", "relevant", "constraint", "calculate"}

# parameter -> (section, attribute) written on the row, per question type context
PARAM_WIRING = {
    ("audit", "track-changes"): ("bind", "odk:track-changes"),
    ("audit", "track-changes-reasons"): ("bind", "odk:track-changes-reasons"),
    ("audit", "identify-user"): ("bind", "odk:identify-user"),
    ("audit", "location-priority"): ("bind", "odk:location-priority"),
    ("audit", "location-min-interval"): ("bind", "odk:location-min-interval"),
    ("audit", "location-max-age"): ("bind", "odk:location-max-age"),
    ("text", "rows"): ("control", "rows"),
    ("photo", "max-pixels"): ("bind", "orx:max-pixels"),
    ("photo", "app"): ("control", "intent"),
    ("audio", "quality"): ("bind", "odk:quality"),
    ("background-audio", "quality"): ("action", "odk:quality"),
    ("geo", "allow-mock-accuracy"): ("bind", "odk:allow-mock-accuracy"),
    ("geo", "capture-accuracy"): ("control", "accuracyThreshold"),
    ("geo", "warning-accuracy"): ("control", "unacceptableAccuracyThreshold"),
}
ALLOWED_PARAMS = {
    "audit": {"location-priority", "location-min-interval", "location-max-age", "track-changes", "identify-user", "track-changes-reasons"},
    "range": {"start", "end", "step"},
    "text": {"rows"},
    "photo": {"max-pixels", "app"},
    "audio": {"quality"},
    "background-audio": {"quality"},
    "geopoint": {"allow-mock-accuracy", "capture-accuracy", "warning-accuracy"},
    "geoshape/geotrace": {"allow-mock-accuracy"},
    "select": {"randomize", "seed"},
    "select_from_file": {"randomize", "seed", "value", "label"},
}
AUDIO_QUALITIES = {"voice-only", "low", "normal", "external"}
BACKGROUND_AUDIO_QUALITIES = {"voice-only", "low", "normal"}

# instance URIs
URI_CONVENTION = {
    "csv": "jr://file-csv/{name}.csv",
    "xml": "jr://file/{name}.xml",
    "geojson": "jr://file/{name}.geojson",
    "pulldata": "jr://file-csv/{name}.csv",
    "last-saved": "jr://instance/last-saved",
}
