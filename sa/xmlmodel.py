"""Summaries (hooks) of the XML helper API used by the abstract evaluator.

Each hook is a *summary* of a repo function whose own body is checked by other
rules (the node factory by C06/C15 rules, the substituter by C03/C06 rules).
The summaries only record what flows where."""

from __future__ import annotations

from .interp import GenList, Interp, NodeVal, Obj, Sym, SymStr, native


def node_hook(interp: Interp, args, kwargs, node):
    if not args:
        tag = kwargs.get("tag")
        rest = []
    else:
        tag, rest = args[0], list(args[1:])
    n = NodeVal(tag, site=node)
    texts = [a for a in rest if isinstance(a, str | Sym | SymStr) and _is_text(a)]
    for k, v in kwargs.items():
        if k == "tag":
            continue
        if k == "toParseString":
            n.parse = v
        else:
            n.attrs[k] = v
    if len(texts) == 1:
        n.text = texts[0]
    for a in rest:
        if isinstance(a, NodeVal):
            n.adopt(a)
            n.children.append(a)
        elif isinstance(a, GenList | list | tuple):
            for c in a:
                if c is not None:
                    n.adopt(c)
                    n.children.append(c)
        elif isinstance(a, int | float) and not isinstance(a, bool):
            n.text = str(a)
    interp.effects.append(("node", n, node))
    return n


def _is_text(a):
    if isinstance(a, Sym):
        return a.pytype in (None, str)
    return True


class SurveyStub:
    """Hooks that stand for the Survey services used by element methods."""

    def __init__(self):
        self.calls = []

    def hooks(self):
        def insert_xpaths(interp, args, kwargs, node):
            # called as survey.insert_xpaths(text, context, ...) -> bound: args[0] is survey obj
            a = list(args)
            if a and isinstance(a[0], Obj) and a[0].name == "survey":
                a = a[1:]
            text = a[0] if a else kwargs.get("text")
            ctxt = a[1] if len(a) > 1 else kwargs.get("context")
            s = Sym(f"SUBST({text!r})", truthy=_truthy_of(interp, text), pytype=str, tags=("SUBST",),
                    attrs={"src": text, "context": ctxt,
                           "use_current": a[2] if len(a) > 2 else kwargs.get("use_current", False),
                           "reference_parent": a[3] if len(a) > 3 else kwargs.get("reference_parent", False)})
            self.calls.append(("insert_xpaths", text, ctxt))
            return s

        def insert_output_values(interp, args, kwargs, node):
            a = list(args)
            if a and isinstance(a[0], Obj) and a[0].name == "survey":
                a = a[1:]
            text = a[0] if a else kwargs.get("text")
            ctxt = a[1] if len(a) > 1 else kwargs.get("context")
            call_id = len(self.calls)
            t = Sym(f"OUT_TEXT#{call_id}({text!r})", truthy=True, pytype=str, tags=("OUTTEXT",),
                    attrs={"src": text, "context": ctxt, "call": call_id})
            f = Sym(f"OUT_FLAG#{call_id}", truthy=None, pytype=bool, tags=("OUTFLAG",), attrs={"call": call_id})
            self.calls.append(("insert_output_values", text, ctxt))
            return (t, f)

        self._ix, self._iov = insert_xpaths, insert_output_values
        return {
            "fnname:insert_xpaths": insert_xpaths,
            "fnname:insert_output_values": insert_output_values,
        }

    def obj(self, **attrs):
        """An attribute bag standing for the Survey passed to element methods."""
        self.hooks()
        o = Obj(None, {"insert_xpaths": native(self._ix), "insert_output_values": native(self._iov)},
                name="survey")
        o.attrs.update(attrs)
        return o


def _truthy_of(interp, v):
    if isinstance(v, Sym):
        return v.truthy
    if isinstance(v, SymStr):
        return True if any(isinstance(p, str) and p for p in v.parts) else None
    return bool(str(v)) if v is not None else True


def get_xpath_hook(interp: Interp, args, kwargs, node):
    obj = args[0]
    key = "__xpath_sym__"
    if isinstance(obj, Obj):
        if key not in obj.attrs:
            obj.attrs[key] = Sym(f"XPATH({obj.name})", truthy=True, pytype=str, tags=("XPATH",), attrs={"of": obj})
        return obj.attrs[key]
    return Sym(f"XPATH({obj!r})", truthy=True, pytype=str, tags=("XPATH",), attrs={"of": obj})


def base_hooks(stub: SurveyStub | None = None) -> dict:
    stub = stub or SurveyStub()
    h = {
        "fnname:node": node_hook,
        "fnname:get_xpath": get_xpath_hook,
    }
    h.update(stub.hooks())
    return h


