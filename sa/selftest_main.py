from __future__ import annotations

import json
import os
import subprocess
import sys
import tempfile
import shutil
from concurrent.futures import ThreadPoolExecutor

from .selftest import VERIF, _variants, run_benign, run_seeded, _copy, _run_check


ALL_PROPS = sorted(f[:-3].upper() for f in os.listdir(os.path.join(VERIF, "sa", "checks")) if f.startswith("c") and f.endswith(".py"))


def run_external(meta_path: str, repo: str):
    """A confirmed sub-agent mutant: /verif/seeded/<id>/{patch.diff, meta.json}."""
    d0 = os.path.dirname(meta_path)
    meta = json.load(open(meta_path))
    d = _copy(repo)
    try:
        r = subprocess.run(["patch", "-p1", "-s", "-d", d, "-i", os.path.join(d0, "patch.diff")], capture_output=True, text=True)
        if r.returncode != 0:
            return {"variant": os.path.basename(d0), "status": "not-applicable", "why": r.stdout[-200:] + r.stderr[-200:]}
        res = {}
        for prop in ALL_PROPS:
            code, rules, tail = _run_check(prop, d)
            if code != 0:
                res[prop] = {"exit": code, "rules": sorted(rules), **({"tail": tail} if code == 2 else {})}
        caught = any(v["exit"] == 1 for v in res.values())
        return {"variant": os.path.basename(d0), "property": meta["property"], "status": "caught" if caught else "missed", "checks": res, "expected": meta.get("expected_detection", "")}
    finally:
        shutil.rmtree(d, ignore_errors=True)


def main(argv):
    repo = os.environ.get("VERIF_REPO", "/repo")
    m = _variants()
    props = [a.upper() for a in argv] or sorted({v["property"] for v in m.S})
    jobs = []
    with ThreadPoolExecutor(max_workers=16) as ex:
        for v in m.S:
            if v["property"] in props:
                jobs.append(("seeded", v["property"], ex.submit(run_seeded, v, repo)))
        for p in props:
            for b in m.B:
                jobs.append(("benign", p, ex.submit(run_benign, b, p, repo)))
        sd = os.path.join(VERIF, "seeded")
        if os.path.isdir(sd):
            for name in sorted(os.listdir(sd)):
                mp = os.path.join(sd, name, "meta.json")
                if os.path.exists(mp) and (not argv or json.load(open(mp))["property"] in props):
                    jobs.append(("external", json.load(open(mp))["property"], ex.submit(run_external, mp, repo)))
        bad = 0
        rows = []
        for kind, prop, fut in jobs:
            r = fut.result()
            rows.append((kind, prop, r))
    for kind, prop, r in rows:
        st = r["status"]
        flag = ""
        if (kind == "seeded" and st == "MISSED") or (kind == "benign" and st == "NOISY"):
            flag = "  <== CHECKER MALFUNCTION"
            bad += 1
        if kind == "external" and st == "missed" and r.get("expected") not in ("not-detectable",):
            flag = "  <== missed (see DESIGN.md)"
        print(f"{kind:8s} {prop} {r['variant']:45s} {st:18s} {','.join(r.get('rules', [])) if 'rules' in r else json.dumps(r.get('checks', ''))[:90]}{flag}")
    n_s = sum(1 for k, _, r in rows if k == "seeded")
    n_c = sum(1 for k, _, r in rows if k == "seeded" and r["status"].startswith("caught"))
    n_b = sum(1 for k, _, r in rows if k == "benign")
    n_q = sum(1 for k, _, r in rows if k == "benign" and r["status"] == "silent")
    n_e = sum(1 for k, _, r in rows if k == "external")
    n_ec = sum(1 for k, _, r in rows if k == "external" and r["status"] == "caught")
    print(f"seeded {n_c}/{n_s} caught; benign {n_q}/{n_b} silent; external mutants {n_ec}/{n_e} caught; malfunctions={bad}")
    return 2 if bad else 0


if __name__ == "__main__":
    sys.exit(main(sys.argv[1:]))
