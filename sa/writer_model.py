"""Abstract evaluation of the two `writexml` overrides and of the node factory.

The element writer is evaluated on every child-shape up to a bound, with the
three formatting parameters as opaque symbols (tag FMT).  The result is, per
shape, the exact sequence of writes / recursive calls, which C01 (balanced
tags), C06 (escaping channel) and C15 (non-interference of FMT) inspect."""

from __future__ import annotations

import ast
import itertools

from .interp import ExtVal, Obj, Raised, Sym, SymStr, explore
from .loader import AnalysisError, ClassInfo, Repo

TEXT = ExtVal("xml.dom.Node.TEXT_NODE")
CDATA = ExtVal("xml.dom.Node.CDATA_SECTION_NODE")
ELEM = ExtVal("xml.dom.Node.ELEMENT_NODE")
KIND = {"T": TEXT, "C": CDATA, "E": ELEM}


def find_writer_classes(ctx, rule: str):
    """Role resolution: the package classes deriving from minidom Element / Text
    that override writexml."""
    it = ctx.interp(rule)
    elem = text = None
    for ci in ctx.repo.all_classes():
        if "writexml" not in ci.methods:
            continue
        ext = [e.split(".")[-1] for e in it.ext_bases(ci)]
        if "Element" in ext:
            elem = ci
        elif "Text" in ext:
            text = ci
    if elem is None or text is None:
        raise AnalysisError(rule, "element/text writer classes (minidom Element/Text subclasses overriding writexml) not found")
    return elem, text


def eval_element_writer(ctx, rule: str, elem_cls: ClassInfo, shape: str, n_attrs: int):
    """Returns list of (events, assumed) for each resolution; events are
    ('write', value) | ('write_data', value) | ('child', index, kind, args)."""
    fn = elem_cls.methods["writexml"]
    results = []
    events: list = []

    def make_self():
        children = []
        for idx, k in enumerate(shape):
            def wx(interp, a, kw, n, idx=idx, k=k):
                events.append(("child", idx, k, tuple(a[1:]) if a and isinstance(a[0], Obj) and a[0].name == "writer" else tuple(a)))
            children.append(Obj(None, {"nodeType": KIND[k], "writexml": wx, "data": Sym(f"DATA{idx}", pytype=str)}, name=f"child{idx}:{k}"))
        attrs = {}
        for i in range(n_attrs):
            attrs[Sym(f"ATTRNAME{i}", truthy=True, pytype=str, tags=("ATTRNAME",))] = Obj(
                None, {"value": Sym(f"ATTRVAL{i}", pytype=str, tags=("ATTRVAL",))}, name=f"attr{i}")
        return Obj(elem_cls, {"tagName": Sym("TAG", truthy=True, pytype=str, tags=("TAG",)), "nodeName": Sym("TAG", truthy=True, pytype=str, tags=("TAG",)),
                              "_attrs": attrs, "childNodes": children, "attributes": attrs,
                              "firstChild": (children[0] if children else None), "lastChild": (children[-1] if children else None)}, name="element")

    def h_write_data(interp, a, k, n):
        events.append(("write_data", a[-1]))

    writer = Obj(None, {"write": lambda interp, a, k, n: events.append(("write", a[0]))}, name="writer")
    it = ctx.interp(rule, hooks={"ext:xml.dom.minidom._write_data": h_write_data})
    fmt = [Sym("INDENT", pytype=str, tags=("FMT",)), Sym("ADDINDENT", pytype=str, tags=("FMT",)), Sym("NEWL", pytype=str, tags=("FMT",))]

    def runit():
        events.clear()
        return it.call_function(fn, [make_self(), writer, *fmt], {}, None, fn.node)

    for dec, out, eff, assumed in explore(it, runit):
        if out[0] == "raise":
            raise AnalysisError(rule, f"element writer raised {out[1].exc_name} on shape {shape!r}")
        results.append((list(events), dict(assumed)))
    return results, fmt


def fmt_free(v) -> bool:
    if isinstance(v, Sym):
        return "FMT" not in v.tags
    if isinstance(v, SymStr):
        return all(fmt_free(p) for p in v.parts)
    return True


def flatten(v):
    """Parts of a written value: list of str | Sym."""
    if isinstance(v, SymStr):
        return list(v.parts)
    return [v]


def shapes(max_len: int = 3):
    for n in range(0, max_len + 1):
        for s in itertools.product("TCE", repeat=n):
            yield "".join(s)


def eval_text_writer(ctx, rule: str, text_cls: ClassInfo, fmt_args):
    fn = text_cls.methods["writexml"]
    events = []
    esc_calls = []

    def h_escape(interp, a, k, n):
        v = k.get("text", a[0] if a else None)
        esc_calls.append(v)
        return Sym("ESC", pytype=str, tags=("ESC",), attrs={"src": v}, truthy=None)

    writer = Obj(None, {"write": lambda interp, a, k, n: events.append(("write", a[0]))}, name="writer")
    it = ctx.interp(rule, hooks={"fnname:escape_text_for_xml": h_escape})
    out = []

    def runit():
        events.clear()
        esc_calls.clear()
        selfo = Obj(text_cls, {"data": Sym("DATA", pytype=str, tags=("DATA",))}, name="text")
        return it.call_function(fn, [selfo, writer, *fmt_args], {}, None, fn.node)

    for dec, o, eff, assumed in explore(it, runit):
        out.append((list(events), list(esc_calls), dict(assumed), o))
    return out


# ---------------------------------------------------------------- node factory
def eval_node_factory(ctx, rule: str, args, kwargs):
    """Abstractly evaluate utils.node(*args, **kwargs).  Returns list of
    (outcome, element_record, parse_calls, assumed)."""
    fn = ctx.func("pyxform.utils:node", rule)
    elem_cls, text_cls = find_writer_classes(ctx, rule)
    out = []
    state = {}

    def new_elem(interp, a, k, n):
        rec = {"tag": a[0] if a else k.get("tagName"), "attrs": [], "children": []}
        state["elem"] = rec
        return Obj(elem_cls, {
            "setAttribute": lambda interp, aa, kk, nn: rec["attrs"].append((aa[0], aa[1])),
            "appendChild": lambda interp, aa, kk, nn: rec["children"].append(aa[0]),
        }, name="element")

    def new_text(interp, a, k, n):
        return Obj(text_cls, {}, name="textnode")

    def h_parse(interp, a, k, n):
        payload = a[0]
        state.setdefault("parse", []).append(payload)
        kids = []
        for i in range(2):
            kid = Sym(f"PARSED_CHILD{i}", truthy=True, tags=("PARSED",))
            kid.attrs["cloneNode"] = (lambda interp, aa, kk, nn, kid=kid: Sym(f"CLONE({kid.name})", truthy=True, tags=("PARSED", "CLONE"), attrs={"deep": kk.get("deep", aa[0] if aa else None)}))
            kids.append(kid)
        doc_el = Sym("DOC_ELEMENT", truthy=True, attrs={"childNodes": kids})
        return Sym("PARSED_DOC", truthy=True, attrs={"documentElement": doc_el})

    hooks = {
        f"new:{elem_cls.name}": new_elem,
        f"new:{text_cls.name}": new_text,
        "ext:defusedxml.minidom.parseString": h_parse,
        "symmethod:encode": lambda interp, base, a, k, n: base,
    }
    it = ctx.interp(rule, hooks=hooks)

    def runit():
        state.clear()
        return it.call_function(fn, list(args), dict(kwargs), None, fn.node)

    for dec, o, eff, assumed in explore(it, runit):
        out.append((o, dict(state.get("elem") or {}), list(state.get("parse", [])), dict(assumed)))
    return out
