"""Statement-level control-flow graph for one function (or one statement list),
with exceptional edges, duplicated `finally` bodies per continuation kind,
dominators and blocked-reachability queries.  Stdlib only."""

from __future__ import annotations

import ast
from collections import defaultdict

ENTRY, EXIT, RAISE = "ENTRY", "EXIT", "RAISE"

_CATCH_ALL = {"Exception", "BaseException"}


class Node:
    __slots__ = ("id", "stmt", "kind", "label")

    def __init__(self, id, stmt, kind, label=""):
        self.id = id
        self.stmt = stmt  # ast node (stmt, or expr for tests / iterators)
        self.kind = kind  # 'stmt' | 'test' | 'iter' | 'entry' | 'exit' | 'raise' | 'handler' | 'with'
        self.label = label

    def __repr__(self):
        ln = getattr(self.stmt, "lineno", "")
        return f"<{self.id}:{self.kind}@{ln}>"


class CFG:
    def __init__(self):
        self.nodes: dict[int, Node] = {}
        self.succ: dict[int, list[tuple[int, str]]] = defaultdict(list)
        self.pred: dict[int, list[tuple[int, str]]] = defaultdict(list)
        self._n = 0
        self.entry = self._new(None, "entry").id
        self.exit = self._new(None, "exit").id
        self.raise_exit = self._new(None, "raise").id

    def _new(self, stmt, kind, label=""):
        n = Node(self._n, stmt, kind, label)
        self.nodes[n.id] = n
        self._n += 1
        return n

    def edge(self, a: int, b: int, label: str = ""):
        if (b, label) not in self.succ[a]:
            self.succ[a].append((b, label))
            self.pred[b].append((a, label))

    # ---------------------------------------------------------------- queries
    def nodes_for(self, pred) -> list[int]:
        return [i for i, n in self.nodes.items() if n.stmt is not None and pred(n)]

    def nodes_of_stmt(self, stmt) -> list[int]:
        return [i for i, n in self.nodes.items() if n.stmt is stmt]

    def reachable(self, start: int, blocked=frozenset(), skip_labels=frozenset(), blocked_edges=frozenset()) -> set[int]:
        seen = set()
        stack = [start]
        while stack:
            x = stack.pop()
            if x in seen or x in blocked:
                continue
            seen.add(x)
            for y, lab in self.succ[x]:
                if lab in skip_labels or (x, y) in blocked_edges or (x, y, lab) in blocked_edges:
                    continue
                if y not in seen and y not in blocked:
                    stack.append(y)
        return seen

    def must_pass(self, start: int, target: int, through: set[int], skip_labels=frozenset()) -> bool:
        """Every path start -> target passes a node of `through`."""
        if start in through:
            return True
        return target not in self.reachable(start, blocked=frozenset(through), skip_labels=skip_labels)

    def witness_path(self, start: int, target: int, blocked=frozenset(), skip_labels=frozenset()):
        prev = {start: None}
        queue = [start]
        while queue:
            x = queue.pop(0)
            if x == target:
                path = []
                while x is not None:
                    path.append(x)
                    x = prev[x]
                return list(reversed(path))
            for y, lab in self.succ[x]:
                if lab in skip_labels or y in prev or y in blocked:
                    continue
                prev[y] = x
                queue.append(y)
        return None

    def dominators(self, start: int | None = None, skip_labels=frozenset()) -> dict[int, set[int]]:
        start = self.entry if start is None else start
        reach = self.reachable(start, skip_labels=skip_labels)
        dom = {n: set(reach) for n in reach}
        dom[start] = {start}
        changed = True
        order = sorted(reach)
        while changed:
            changed = False
            for n in order:
                if n == start:
                    continue
                ps = [p for p, lab in self.pred[n] if p in reach and lab not in skip_labels]
                if not ps:
                    continue
                new = set.intersection(*(dom[p] for p in ps)) | {n}
                if new != dom[n]:
                    dom[n] = new
                    changed = True
        return dom

    def describe(self, path) -> list[str]:
        out = []
        for i in path:
            n = self.nodes[i]
            if n.stmt is None:
                out.append(n.kind.upper())
            else:
                out.append(f"L{getattr(n.stmt, 'lineno', '?')}:{n.kind}")
        return out


class _Ctx:
    """Where control goes for non-local transfers at the current position."""

    __slots__ = ("exc", "ret", "brk", "cont")

    def __init__(self, exc, ret, brk=None, cont=None):
        self.exc = exc  # callable () -> list of node ids that an exception may reach
        self.ret = ret  # callable (from_node) -> None : wire a return
        self.brk = brk
        self.cont = cont


def build(body: list[ast.stmt], every_stmt_may_raise: bool = True) -> CFG:
    g = CFG()

    def may_raise(stmt) -> bool:
        if not every_stmt_may_raise:
            return False
        if isinstance(stmt, ast.Pass | ast.Break | ast.Continue | ast.Global | ast.Nonlocal):
            return False
        return True

    def wire_exc(node_id: int, ctx: _Ctx):
        for t in ctx.exc():
            g.edge(node_id, t, "exc")

    def block(stmts, preds: list[tuple[int, str]], ctx: _Ctx) -> list[tuple[int, str]]:
        """Builds stmts; `preds` are dangling (node, label) edges to connect to
        the first node; returns the dangling edges after the block."""
        for s in stmts:
            preds = stmt(s, preds, ctx)
        return preds

    def connect(preds, node_id):
        for p, lab in preds:
            g.edge(p, node_id, lab)

    def stmt(s, preds, ctx: _Ctx):
        if isinstance(s, ast.If):
            t = g._new(s.test, "test")
            t.label = "if"
            connect(preds, t.id)
            wire_exc(t.id, ctx)
            out = block(s.body, [(t.id, "true")], ctx)
            out += block(s.orelse, [(t.id, "false")], ctx) if s.orelse else [(t.id, "false")]
            return out
        if isinstance(s, ast.For | ast.AsyncFor):
            it = g._new(s, "iter")
            connect(preds, it.id)
            wire_exc(it.id, ctx)
            after: list[tuple[int, str]] = []
            brk_edges: list[tuple[int, str]] = []
            lctx = _Ctx(ctx.exc, ctx.ret,
                        brk=lambda n: brk_edges.append((n, "break")),
                        cont=lambda n: g.edge(n, it.id, "continue"))
            body_out = block(s.body, [(it.id, "loop")], lctx)
            for p, lab in body_out:
                g.edge(p, it.id, lab or "back")
            else_out = block(s.orelse, [(it.id, "exhausted")], ctx) if s.orelse else [(it.id, "exhausted")]
            return else_out + brk_edges + after
        if isinstance(s, ast.While):
            t = g._new(s.test, "test")
            t.label = "while"
            connect(preds, t.id)
            wire_exc(t.id, ctx)
            brk_edges = []
            lctx = _Ctx(ctx.exc, ctx.ret,
                        brk=lambda n: brk_edges.append((n, "break")),
                        cont=lambda n: g.edge(n, t.id, "continue"))
            body_out = block(s.body, [(t.id, "true")], lctx)
            for p, lab in body_out:
                g.edge(p, t.id, lab or "back")
            const_true = isinstance(s.test, ast.Constant) and bool(s.test.value)
            else_out = [] if const_true else (
                block(s.orelse, [(t.id, "false")], ctx) if s.orelse else [(t.id, "false")])
            return else_out + brk_edges
        if isinstance(s, ast.Try):
            return try_stmt(s, preds, ctx)
        if isinstance(s, ast.With | ast.AsyncWith):
            w = g._new(s, "with")
            connect(preds, w.id)
            wire_exc(w.id, ctx)
            return block(s.body, [(w.id, "")], ctx)
        if isinstance(s, ast.Match):
            m = g._new(s.subject, "test")
            connect(preds, m.id)
            wire_exc(m.id, ctx)
            out = [(m.id, "nomatch")]
            for c in s.cases:
                out += block(c.body, [(m.id, "case")], ctx)
            return out
        n = g._new(s, "stmt")
        connect(preds, n.id)
        if isinstance(s, ast.Return):
            if s.value is not None and may_raise(s):
                wire_exc(n.id, ctx)
            ctx.ret(n.id)
            return []
        if isinstance(s, ast.Raise):
            wire_exc(n.id, ctx)
            return []
        if isinstance(s, ast.Break):
            ctx.brk(n.id)
            return []
        if isinstance(s, ast.Continue):
            ctx.cont(n.id)
            return []
        if isinstance(s, ast.FunctionDef | ast.AsyncFunctionDef | ast.ClassDef):
            return [(n.id, "")]
        if may_raise(s):
            wire_exc(n.id, ctx)
        return [(n.id, "")]

    def try_stmt(s: ast.Try, preds, ctx: _Ctx):
        has_finally = bool(s.finalbody)
        # --- finally copies, built lazily per continuation kind -----------
        fin_cache: dict[str, tuple[int, list]] = {}

        def fin_copy(kind: str, after_ctx: _Ctx):
            """Returns (entry_node_id, dangling_out) of a fresh copy of finally."""
            if kind in fin_cache:
                return fin_cache[kind]
            head = g._new(s, "finally")
            head.label = kind
            out = block(s.finalbody, [(head.id, "")], after_ctx)
            fin_cache[kind] = (head.id, out)
            return fin_cache[kind]

        # Context seen from inside try body / handlers when a finally exists:
        def outer_exc_targets():
            if not has_finally:
                return ctx.exc()
            head, out = fin_copy("exc", ctx)
            # after finally(exc) the exception continues outward
            for p, lab in out:
                for t in ctx.exc():
                    g.edge(p, t, "exc")
            fin_cache["exc"] = (head, [])
            return [head]

        def outer_ret(n):
            if not has_finally:
                return ctx.ret(n)
            head, out = fin_copy("ret", ctx)
            g.edge(n, head, "return")
            for p, _lab in out:
                ctx.ret(p)
            fin_cache["ret"] = (head, [])

        def outer_brk(n):
            if not has_finally or ctx.brk is None:
                return ctx.brk(n)
            head, out = fin_copy("brk", ctx)
            g.edge(n, head, "break")
            for p, _lab in out:
                ctx.brk(p)
            fin_cache["brk"] = (head, [])

        def outer_cont(n):
            if not has_finally or ctx.cont is None:
                return ctx.cont(n)
            head, out = fin_copy("cont", ctx)
            g.edge(n, head, "continue")
            for p, _lab in out:
                ctx.cont(p)
            fin_cache["cont"] = (head, [])

        handler_heads = []
        catch_all = False
        for h in s.handlers:
            hn = g._new(h, "handler")
            handler_heads.append(hn.id)
            if h.type is None:
                catch_all = True
            else:
                names = [x.id for x in ast.walk(h.type) if isinstance(x, ast.Name)]
                if any(nm in _CATCH_ALL for nm in names):
                    catch_all = True

        def body_exc_targets():
            t = list(handler_heads)
            if not catch_all:
                t += outer_exc_targets()
            return t

        body_ctx = _Ctx(body_exc_targets, outer_ret, outer_brk if ctx.brk else None, outer_cont if ctx.cont else None)
        rest_ctx = _Ctx(outer_exc_targets, outer_ret, outer_brk if ctx.brk else None, outer_cont if ctx.cont else None)

        body_out = block(s.body, preds, body_ctx)
        else_out = block(s.orelse, body_out, rest_ctx) if s.orelse else body_out
        normal = list(else_out)
        for hid, h in zip(handler_heads, s.handlers):
            normal += block(h.body, [(hid, "")], rest_ctx)
        if has_finally:
            head, out = fin_copy("normal", ctx)
            for p, lab in normal:
                g.edge(p, head, lab)
            return out
        return normal

    # a bare statement list may be a loop body: continue / break leave it
    top = _Ctx(lambda: [g.raise_exit], lambda n: g.edge(n, g.exit, "return"),
               brk=lambda n: g.edge(n, g.exit, "break"), cont=lambda n: g.edge(n, g.exit, "continue"))
    out = block(body, [(g.entry, "")], top)
    for p, lab in out:
        g.edge(p, g.exit, lab or "fallthrough")
    return g


def calls_in(node: ast.AST):
    """Call nodes inside one CFG node's own expression (does not descend into
    nested statement bodies: a CFG node for If holds only the test)."""
    if node is None:
        return []
    if isinstance(node, ast.For | ast.AsyncFor):
        roots = [node.iter, node.target]
    elif isinstance(node, ast.With | ast.AsyncWith):
        roots = [i.context_expr for i in node.items]
    elif isinstance(node, ast.ExceptHandler):
        roots = []
    elif isinstance(node, ast.Try):
        roots = []
    elif isinstance(node, ast.FunctionDef | ast.AsyncFunctionDef | ast.ClassDef):
        roots = list(node.decorator_list)
    else:
        roots = [node]
    out = []
    for r in roots:
        stack = [r]
        while stack:
            x = stack.pop()
            if isinstance(x, ast.Call):
                out.append(x)
            if isinstance(x, ast.Lambda | ast.FunctionDef | ast.AsyncFunctionDef | ast.ClassDef):
                continue
            stack.extend(ast.iter_child_nodes(x))
    return out


def own_exprs(node: ast.AST):
    """All expression nodes belonging to a CFG node (same scoping as calls_in)."""
    if node is None:
        return []
    if isinstance(node, ast.For | ast.AsyncFor):
        roots = [node.iter, node.target]
    elif isinstance(node, ast.With | ast.AsyncWith):
        roots = [i.context_expr for i in node.items] + [i.optional_vars for i in node.items if i.optional_vars]
    elif isinstance(node, ast.ExceptHandler | ast.Try):
        roots = []
    elif isinstance(node, ast.FunctionDef | ast.AsyncFunctionDef | ast.ClassDef):
        roots = list(node.decorator_list)
    else:
        roots = [node]
    out = []
    for r in roots:
        stack = [r]
        while stack:
            x = stack.pop()
            out.append(x)
            if isinstance(x, ast.Lambda | ast.FunctionDef | ast.AsyncFunctionDef | ast.ClassDef):
                continue
            stack.extend(ast.iter_child_nodes(x))
    return out
